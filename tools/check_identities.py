#!/usr/bin/env python3
"""One-off numerical sanity check (scipy quadrature) of the integral representations that the
C18 harness uses as independent references.  Not part of any check command."""
import numpy as np
from scipy import integrate, special as sp

def quad2(f, lo_hi_inner):
    return integrate.dblquad(f, 0, np.inf, *lo_hi_inner, epsabs=1e-13, epsrel=1e-10)[0]

rng = np.random.default_rng(1)
worst = 0
for _ in range(6):
    ai, aj = rng.uniform(1.2, 4, 2); bi, bj = rng.uniform(0.3, 2, 2); y = rng.integers(0, 4); mu = rng.uniform(0.2, 2)
    # --- moments: density over 0 < tj < ti
    dens = lambda tj, ti: (ti - tj) ** y * np.exp(-mu * (ti - tj)) * ti ** (ai - 1) * np.exp(-bi * ti) * tj ** (aj - 1) * np.exp(-bj * tj)
    Z = quad2(dens, (lambda ti: 0, lambda ti: ti))
    Ei = quad2(lambda tj, ti: ti * dens(tj, ti), (lambda ti: 0, lambda ti: ti)) / Z
    Ej = quad2(lambda tj, ti: tj * dens(tj, ti), (lambda ti: 0, lambda ti: ti)) / Z
    Ei2 = quad2(lambda tj, ti: ti * ti * dens(tj, ti), (lambda ti: 0, lambda ti: ti)) / Z
    Ej2 = quad2(lambda tj, ti: tj * tj * dens(tj, ti), (lambda ti: 0, lambda ti: ti)) / Z
    a, b, c, t = aj, ai + aj + y, aj + y + 1, mu + bi
    z = (mu - bj) / t
    F = lambda k: sp.hyp2f1(a + k, b + k, c + k, z)
    mnj = a * b / c / t * F(1) / F(0)
    sqj = a * (a + 1) * b * (b + 1) / (c * (c + 1)) / t ** 2 * F(2) / F(0)
    mni = b / t + z * mnj
    sqi = b * (b + 1) / t ** 2 * (1 + 2 * a * z / c * F(1) / F(0) + a * (a + 1) * z * z / (c * (c + 1)) * F(2) / F(0))
    for got, want in ((mnj, Ej), (sqj, Ej2), (mni, Ei), (sqi, Ei2)):
        worst = max(worst, abs(got / want - 1))
    # --- unphased: independent ti, tj > 0 with (ti + tj)^y
    dens = lambda tj, ti: (ti + tj) ** y * np.exp(-mu * (ti + tj)) * ti ** (ai - 1) * np.exp(-bi * ti) * tj ** (aj - 1) * np.exp(-bj * tj)
    Z = quad2(dens, (lambda ti: 0, lambda ti: np.inf))
    Ei = quad2(lambda tj, ti: ti * dens(tj, ti), (lambda ti: 0, lambda ti: np.inf)) / Z
    Ej = quad2(lambda tj, ti: tj * dens(tj, ti), (lambda ti: 0, lambda ti: np.inf)) / Z
    Ei2 = quad2(lambda tj, ti: ti * ti * dens(tj, ti), (lambda ti: 0, lambda ti: np.inf)) / Z
    Ej2 = quad2(lambda tj, ti: tj * tj * dens(tj, ti), (lambda ti: 0, lambda ti: np.inf)) / Z
    a, b, c, t = aj, ai + aj + y, ai + aj, mu + bi
    z = (mu + bj) / t
    F = lambda k: sp.hyp2f1(a + k, b + k, c + k, 1 - z)
    mnj = a * b / c / t * F(1) / F(0)
    sqj = a * (a + 1) * b * (b + 1) / (c * (c + 1)) / t ** 2 * F(2) / F(0)
    # E[ti + tj] and E[(ti+tj)^2] follow from y -> y+1, y+2 ... ; the total-time identity used:
    # (mu + bi) ti + (mu + bj) tj has mean b  (Gamma-type scaling of the joint density)
    mni = b / t - z * mnj
    sqi = b * (b + 1) / t ** 2 * (1 - 2 * a * z / c * F(1) / F(0) + a * (a + 1) * z * z / (c * (c + 1)) * F(2) / F(0))
    for got, want in ((mnj, Ej), (sqj, Ej2), (mni, Ei), (sqi, Ei2)):
        worst = max(worst, abs(got / want - 1))
    # --- leafward: tj in (0, ti) fixed ti
    ti = rng.uniform(0.5, 3)
    dens1 = lambda tj: (ti - tj) ** y * np.exp(-mu * (ti - tj)) * tj ** (aj - 1) * np.exp(-bj * tj)
    Z = integrate.quad(dens1, 0, ti)[0]
    Ej = integrate.quad(lambda s: s * dens1(s), 0, ti)[0] / Z
    Ej2 = integrate.quad(lambda s: s * s * dens1(s), 0, ti)[0] / Z
    a, b = aj, aj + y + 1
    zz = ti * (mu - bj)
    M = lambda k: sp.hyp1f1(a + k, b + k, zz)
    for got, want in ((ti * a / b * M(1) / M(0), Ej), (ti ** 2 * a * (a + 1) / (b * (b + 1)) * M(2) / M(0), Ej2)):
        worst = max(worst, abs(got / want - 1))
# --- mutation references (normaliser ratios with Pochhammer symbols)
def poch(x, k):
    r = 1.0
    for i in range(k):
        r *= x + i
    return r

for _ in range(3):
    ai, aj = rng.uniform(1.2, 4, 2); bi, bj = rng.uniform(0.3, 2, 2); y = int(rng.integers(1, 4)); mu = rng.uniform(0.2, 2)
    dens = lambda tj, ti: (ti - tj) ** y * np.exp(-mu * (ti - tj)) * ti ** (ai - 1) * np.exp(-bi * ti) * tj ** (aj - 1) * np.exp(-bj * tj)
    lim = (lambda ti: 0, lambda ti: ti)
    Z = quad2(dens, lim)
    a, b, c, t = aj, ai + aj + y, aj + y + 1, mu + bi
    z = (mu - bj) / t
    E = lambda p, q: poch(a, q) / poch(c, q) * poch(b, p + q) / t ** (p + q) * sp.hyp2f1(a + q, b + p + q, c + q, z) / sp.hyp2f1(a, b, c, z)
    for (p, q) in ((2, 0), (1, 1), (0, 2), (1, 0), (0, 1)):
        want = quad2(lambda tj, ti: ti ** p * tj ** q * dens(tj, ti), lim) / Z
        worst = max(worst, abs(E(p, q) / want - 1))
    # unphased mutation
    dens = lambda tj, ti: (ti + tj) ** y * np.exp(-mu * (ti + tj)) * ti ** (ai - 1) * np.exp(-bi * ti) * tj ** (aj - 1) * np.exp(-bj * tj)
    lim = (lambda ti: 0, lambda ti: np.inf)
    Z = quad2(dens, lim)
    a, b, c, t = aj, ai + aj + y, ai + aj, mu + bi
    w = 1 - (mu + bj) / t
    def R(di, dj):
        k = di + dj - 1
        return poch(a, dj) * poch(c - a, di) / poch(c, di + dj) * poch(b, k) / t ** k * sp.hyp2f1(a + dj, b + k, c + di + dj, w) / sp.hyp2f1(a, b, c, w)
    for (di, dj) in ((1, 0), (2, 0), (0, 2), (3, 0), (0, 3)):
        want = quad2(lambda tj, ti: ti ** di * tj ** dj / (ti + tj) * dens(tj, ti), lim) / Z
        worst = max(worst, abs(R(di, dj) / want - 1))
    # sideways mutation
    ti = rng.uniform(0.5, 3)
    d1 = lambda s: (ti + s) ** y * np.exp(-mu * (ti + s)) * s ** (aj - 1) * np.exp(-bj * s)
    Z1 = integrate.quad(d1, 0, np.inf)[0]
    a, b = aj, aj + y + 1
    zz = ti * (mu + bj)
    for k in (1, 2, 3):
        want = integrate.quad(lambda s: s ** k / (ti + s) * d1(s), 0, np.inf)[0] / Z1 / ti ** (k - 1)
        got = poch(a, k) * sp.hyperu(a + k, b + k - 1, zz) / sp.hyperu(a, b, zz)
        worst = max(worst, abs(got / want - 1))
print("worst relative deviation of the reference formulas from quadrature:", worst)
assert worst < 1e-6
