#!/usr/bin/env python3
"""One-off numerical sanity check (scipy quadrature) of the integral representations that the
C18 harness uses as independent references.  Not part of any check command."""
import numpy as np
from scipy import integrate, special as sp

def quad2(f, lo_hi_inner):
    return integrate.dblquad(f, 0, np.inf, *lo_hi_inner, epsabs=1e-13, epsrel=1e-10)[0]

rng = np.random.default_rng(1)
worst = 0
for _ in range(6):
    ai, aj = rng.uniform(1.2, 4, 2); bi, bj = rng.uniform(0.3, 2, 2); y = rng.integers(0, 4); mu = rng.uniform(0.2, 2)
    # --- moments: density over 0 < tj < ti
    dens = lambda tj, ti: (ti - tj) ** y * np.exp(-mu * (ti - tj)) * ti ** (ai - 1) * np.exp(-bi * ti) * tj ** (aj - 1) * np.exp(-bj * tj)
    Z = quad2(dens, (lambda ti: 0, lambda ti: ti))
    Ei = quad2(lambda tj, ti: ti * dens(tj, ti), (lambda ti: 0, lambda ti: ti)) / Z
    Ej = quad2(lambda tj, ti: tj * dens(tj, ti), (lambda ti: 0, lambda ti: ti)) / Z
    Ei2 = quad2(lambda tj, ti: ti * ti * dens(tj, ti), (lambda ti: 0, lambda ti: ti)) / Z
    Ej2 = quad2(lambda tj, ti: tj * tj * dens(tj, ti), (lambda ti: 0, lambda ti: ti)) / Z
    a, b, c, t = aj, ai + aj + y, aj + y + 1, mu + bi
    z = (mu - bj) / t
    F = lambda k: sp.hyp2f1(a + k, b + k, c + k, z)
    mnj = a * b / c / t * F(1) / F(0)
    sqj = a * (a + 1) * b * (b + 1) / (c * (c + 1)) / t ** 2 * F(2) / F(0)
    mni = b / t + z * mnj
    sqi = b * (b + 1) / t ** 2 * (1 + 2 * a * z / c * F(1) / F(0) + a * (a + 1) * z * z / (c * (c + 1)) * F(2) / F(0))
    for got, want in ((mnj, Ej), (sqj, Ej2), (mni, Ei), (sqi, Ei2)):
        worst = max(worst, abs(got / want - 1))
    # --- unphased: independent ti, tj > 0 with (ti + tj)^y
    dens = lambda tj, ti: (ti + tj) ** y * np.exp(-mu * (ti + tj)) * ti ** (ai - 1) * np.exp(-bi * ti) * tj ** (aj - 1) * np.exp(-bj * tj)
    Z = quad2(dens, (lambda ti: 0, lambda ti: np.inf))
    Ei = quad2(lambda tj, ti: ti * dens(tj, ti), (lambda ti: 0, lambda ti: np.inf)) / Z
    Ej = quad2(lambda tj, ti: tj * dens(tj, ti), (lambda ti: 0, lambda ti: np.inf)) / Z
    Ei2 = quad2(lambda tj, ti: ti * ti * dens(tj, ti), (lambda ti: 0, lambda ti: np.inf)) / Z
    Ej2 = quad2(lambda tj, ti: tj * tj * dens(tj, ti), (lambda ti: 0, lambda ti: np.inf)) / Z
    a, b, c, t = aj, ai + aj + y, ai + aj, mu + bi
    z = (mu + bj) / t
    F = lambda k: sp.hyp2f1(a + k, b + k, c + k, 1 - z)
    mnj = a * b / c / t * F(1) / F(0)
    sqj = a * (a + 1) * b * (b + 1) / (c * (c + 1)) / t ** 2 * F(2) / F(0)
    # E[ti + tj] and E[(ti+tj)^2] follow from y -> y+1, y+2 ... ; the total-time identity used:
    # (mu + bi) ti + (mu + bj) tj has mean b  (Gamma-type scaling of the joint density)
    mni = b / t - z * mnj
    sqi = b * (b + 1) / t ** 2 * (1 - 2 * a * z / c * F(1) / F(0) + a * (a + 1) * z * z / (c * (c + 1)) * F(2) / F(0))
    for got, want in ((mnj, Ej), (sqj, Ej2), (mni, Ei), (sqi, Ei2)):
        worst = max(worst, abs(got / want - 1))
    # --- leafward: tj in (0, ti) fixed ti
    ti = rng.uniform(0.5, 3)
    dens1 = lambda tj: (ti - tj) ** y * np.exp(-mu * (ti - tj)) * tj ** (aj - 1) * np.exp(-bj * tj)
    Z = integrate.quad(dens1, 0, ti)[0]
    Ej = integrate.quad(lambda s: s * dens1(s), 0, ti)[0] / Z
    Ej2 = integrate.quad(lambda s: s * s * dens1(s), 0, ti)[0] / Z
    a, b = aj, aj + y + 1
    zz = ti * (mu - bj)
    M = lambda k: sp.hyp1f1(a + k, b + k, zz)
    for got, want in ((ti * a / b * M(1) / M(0), Ej), (ti ** 2 * a * (a + 1) / (b * (b + 1)) * M(2) / M(0), Ej2)):
        worst = max(worst, abs(got / want - 1))
print("worst relative deviation of the reference formulas from quadrature:", worst)
assert worst < 1e-6
