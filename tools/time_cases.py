"""Developer helper: run every case of a check in its own process with a time limit and print
the cost.  usage: time_cases.py C21 quick [limit_s] [name-substring]"""
import importlib
import multiprocessing as mp
import os
import sys
import time

sys.path.insert(0, "/verif")
os.environ["NUMBA_DISABLE_JIT"] = "1"
from checks import common


def main():
    prop, tier = sys.argv[1], sys.argv[2]
    limit = float(sys.argv[3]) if len(sys.argv) > 3 else 120
    sub = sys.argv[4] if len(sys.argv) > 4 else ""
    mod = importlib.import_module("checks." + prop.lower())
    cs = [c for c in mod.cases(tier) if sub in c.name]
    os.environ["VERIF_CASE_TIMEOUT"] = str(limit)
    outs = common.run_cases(cs)
    agg = {}
    for o in outs:
        n = o["name"]
        if o.get("error"):
            print(f"{n:45s} ERROR {o['error'][-300:]}")
            continue
        s = o["stats"]
        if "#s" in n:
            a = agg.setdefault(n.split("#s")[0], [0, 0, 0.0, 0.0, 0, []])
            a[0] += s["paths"]; a[1] += s["queries"]; a[2] += s["solver_s"]
            a[3] = max(a[3], o["wall_s"]); a[4] += s["unknown"]
            a[5] += [(b["obligation"], b["status"]) for b in o["bad"]][:2]
            continue
        print(f"{n:45s} wall={o['wall_s']:7.1f} paths={s['paths']:6d} q={s['queries']:7d} "
              f"solver={s['solver_s']:7.1f} unk={s['unknown']} exh={o['exhausted']} "
              f"bad={[(b['obligation'], b['status']) for b in o['bad']][:3]}")
    for n, a in agg.items():
        print(f"{n:45s} SHARDED maxwall={a[3]:7.1f} paths={a[0]:6d} q={a[1]:7d} solver={a[2]:7.1f} "
              f"unk={a[4]} bad={a[5][:3]}")


if __name__ == "__main__":
    main()
