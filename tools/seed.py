#!/usr/bin/env python3
"""seed.py store <ID>[suffix]        : copy a confirmed sub-agent change into /verif/seeded/<ID><suffix>/
   seed.py run <ID>[suffix] C01 C03 : apply it to /repo, run the quick checks, undo, record verdicts"""
import json, os, re, shutil, subprocess, sys, time

V = "/verif"


def store(name):
    src, dst = f"/tmp/seed/out-{name}", f"{V}/seeded/{name}"
    os.makedirs(dst, exist_ok=True)
    for f in ("patch.diff", "demo.py"):
        shutil.copy(os.path.join(src, f), os.path.join(dst, f))
    meta = json.load(open(os.path.join(src, "meta.json")))
    log = open(f"/tmp/seed/confirm-{name}.log").read()
    conf = {k: (re.search(k + r"=(\d+)", log) or [None, None])[1] for k in
            ("tests_exit", "demo_with_patch_exit", "demo_without_patch_exit")}
    passed = re.search(r"(\d+) passed", log)
    meta["confirmed_by_me"] = {
        "worktree": f"/tmp/seed/wt-{name} (scratch, removed afterwards)",
        "tests_with_patch": f"{passed.group(0) if passed else '?'} (exit {conf['tests_exit']})",
        "demo_with_patch_exit": conf["demo_with_patch_exit"],
        "demo_without_patch_exit": conf["demo_without_patch_exit"],
        "command": "tools/confirm_seed.sh " + name,
    }
    meta.setdefault("checks_run", {})
    json.dump(meta, open(os.path.join(dst, "meta.json"), "w"), indent=1)
    print("stored", dst, meta["confirmed_by_me"])


def run(name, props, tier="quick"):
    """Apply the change to a scratch worktree of /repo's HEAD (so that /repo itself stays usable;
    same effect as `git -C /repo apply` + checkout), run the checks with VERIF_REPO pointing at
    it, remove the worktree."""
    dst = f"{V}/seeded/{name}"
    meta = json.load(open(os.path.join(dst, "meta.json")))
    patch = os.path.join(dst, "patch_on_fixed_tree.diff")
    if not os.path.exists(patch):
        patch = os.path.join(dst, "patch.diff")
    wt = f"/tmp/seed/run-{name}"
    subprocess.run(["git", "-C", "/repo", "worktree", "remove", "--force", wt], capture_output=True)
    subprocess.run(["git", "-C", "/repo", "worktree", "add", "-q", "--detach", wt, "HEAD"], check=True)
    try:
        subprocess.run(["git", "-C", wt, "apply", patch], check=True)
        env = dict(os.environ, PYTHONPATH=wt, VERIF_REPO=wt,
                   VERIF_EVIDENCE_DIR=f"{V}/work/seed-evidence")
        d = subprocess.run(["/venv/bin/python", "demo.py"], cwd=dst, capture_output=True, text=True,
                           env=env, timeout=3000)
        meta["demo_on_current_tree_with_patch_exit"] = d.returncode
        meta["patch_used"] = os.path.basename(patch)
        print("demo exit with patch on current tree:", d.returncode)
        env.pop("PYTHONPATH")
        for p in props:
            t0 = time.time()
            r = subprocess.run([f"{V}/check", p, "--tier", tier], cwd=V, capture_output=True,
                               text=True, env=env)
            viol = [l for l in r.stdout.splitlines() if l.startswith("VIOLATION")]
            meta.setdefault("checks_run", {})[p] = {
                "tier": tier, "exit": r.returncode, "violations": len(viol), "first": viol[:1],
                "wall_s": round(time.time() - t0)}
            print(p, meta["checks_run"][p], flush=True)
    finally:
        subprocess.run(["git", "-C", "/repo", "worktree", "remove", "--force", wt])
        subprocess.run(["git", "-C", "/repo", "worktree", "prune"])
    json.dump(meta, open(os.path.join(dst, "meta.json"), "w"), indent=1)


if __name__ == "__main__":
    if sys.argv[1] == "store":
        store(sys.argv[2])
    else:
        tier = "quick"
        args = sys.argv[3:]
        if args and args[0] == "--thorough":
            tier, args = "thorough", args[1:]
        run(sys.argv[2], args, tier)
