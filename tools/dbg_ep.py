"""Developer helper: time individual EP harness cases.  usage: dbg_ep.py <which> [max_paths]"""
import sys
import time

sys.path.insert(0, '/verif')
from symx import load
load.ensure_env()
from symx.ctx import explore, Ctx
from checks import ep_cases


def run(name, f, **kw):
    t0 = time.time()
    cx = Ctx(qtimeout_ms=10000, max_paths=int(sys.argv[2]) if len(sys.argv) > 2 else 40)
    explore(lambda c: f(c, **kw), cx)
    bad = [(r.name, r.status) for r in cx.results if r.status != 'unsat']
    print(name, cx.stats.as_dict(), cx.exhausted, round(time.time() - t0, 1), bad[:6], cx.tags,
          flush=True)


which = sys.argv[1]
W = sys.argv[3].split(",") if len(sys.argv) > 3 else ["J"]
if which == "e0":
    run("chain e0", ep_cases.h_likelihood, config="chain", order=[0], which=W)
if which == "e3":
    run("chain e3", ep_cases.h_likelihood, config="chain", order=[3], which=W)
if which == "prior":
    run("prior", ep_cases.h_prior, config="chain", em_maxitt=1, which=W)
if which == "resc":
    run("resc", ep_cases.h_rescale_factors, config="chain")
if which == "blk":
    run("blk", ep_cases.h_likelihood, config="blocks", order=[0], unphased=True, which=W)
if which == "fp":
    run("fixed_parent", ep_cases.h_likelihood, config="fixed_parent", order=[2], which=W)
