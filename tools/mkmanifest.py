#!/usr/bin/env python3
"""Regenerates MANIFEST.json from the table below (run after adding/removing a check)."""
import json
import os

HERE = os.path.dirname(os.path.dirname(os.path.abspath(__file__)))
ALL = [f"C{i:02d}" for i in range(1, 39)]

TECH = "bounded symbolic execution of the real Python source (NUMBA_DISABLE_JIT) + z3 SMT discharge per path"

# id -> (text, level_note, technique, design_ref)
CLAIMED = {
    "C01": ("For tree-sequence skeletons with <= 7 nodes, every real-valued posterior-mean vector and "
            "every eps > 0, z3 proves on every path of util._constrain_ages (0-2 least-squares "
            "iterations quick, 0-3 thorough; IEEE doubles for the forced pass) that each parent ends "
            ">= eps (resp. >= fl(child+eps)) above each child, and that get_modified_ts writes exactly "
            "that vector and has tskit recompute mutation times afterwards. Bounded model: not a claim "
            "about larger graphs or about tskit's C code.",
            "Trusted: tskit table routines (sort/build_index/compute_mutation_times/tree_sequence), "
            "Python semantics == numba semantics of the same source (counterexamples are replayed on the "
            "compiled code), children-first edge order, exact reals outside the FP harness.",
            TECH + "; QF_NRA (exact reals) and QF_FP (forced pass)", "4/C01"),
    "C03": ("For skeletons with <= 7 nodes incl. internal and historical samples: z3 proves childless "
            "samples keep their exact input time, samples with children end at max(input, child+eps), "
            "and node_moments / mean_var hand the constraint pass (sample time, 0).",
            "Same trusted base as C01; tskit round trip of the time column is trusted.",
            TECH + "; QF_NRA and QF_FP", "4/C03"),
    "C27": ("For skeletons with <= 7 nodes: with 0 least-squares iterations the output equals "
            "max(input, children+eps) node by node (exact reals and IEEE doubles); for 0-2(3) iterations "
            "strictly satisfied inputs are returned unchanged; constrain(constrain(t)) == constrain(t).",
            "Same trusted base as C01.", TECH + "; QF_NRA and QF_FP", "4/C27"),
}

CLAIMED.update({
    "C10": ("Single-tree inputs (all rooted shapes with <= 5 leaves thorough; 7 named trees quick), grids of "
            "3-5 points, both probability spaces, standardize on/off, cache_inside on/off: the posterior of "
            "every non-sample node returned by inside_pass/outside_pass and by the whole "
            "InsideOutsideMethod.run is proved equal, as a rational function of every prior cell, timepoint, "
            "rate, eps and (uninterpreted) Poisson value, to the brute-force posterior of the discretised "
            "model, and the returned likelihood equal to its normaliser.",
            "Poisson pmf uninterpreted (positive, function of count and rate argument); np.max normalisers as "
            "positive symbols; logsumexp replaced by its separately verified summary; exact reals; replay "
            "through tsdate.inside_outside on the compiled code with real Poisson values.",
            TECH + "; polynomial identity normalisation + QF_NRA", "4/C10"),
    "C12": ("InsideOutsideMethod.run and MaximizationMethod.run executed in both probability spaces on shared "
            "symbols for 4-8 small inputs (incl. two-tree inputs), grids 3-5: posterior probabilities, means, "
            "variances, chosen timepoints and exp(log marginal) = marginal proved equal on every path.",
            "As C10; non-integer span powers are an uninterpreted multiplicative power function.",
            TECH + "; relational (two-run) execution", "4/C12"),
    "C13": ("MaximizationMethod.run on 7-10 small inputs (1-2 parents per node), grids 3-5, both spaces: on every "
            "arg-max path the assigned indices are grid points, ordered along every edge, and maximise inside x "
            "product of parent-edge likelihoods within the youngest parent's bound.",
            "As C10; inside values taken from the fit object.", TECH, "4/C13"),
    "C17": ("PopulationSizeHistory with 1-3 symbolic epochs and time vectors of length 1-3 in any order: "
            "to_coalescent equals the integral of 1/(2N), both compositions are the identity, 0 is fixed, both maps "
            "strictly increase, as_dict round-trips, gamma_to_natural is (shape, rate/2N) for constant size and the "
            "piecewise moment match otherwise (integer shapes 1-3).",
            "Incomplete gamma uninterpreted; integer shapes only; exact reals.", TECH, "4/C17"),
})

CLAIMED.update({
    "C11": ("InsideOutsideMethod.run / MaximizationMethod.run on 5-9 small inputs and on the same genealogy with "
            "non-sample nodes renumbered (2 per input quick, all thorough) and/or validly re-timed: mapped posteriors, "
            "means, variances, chosen timepoints and marginal likelihood proved equal on every path.",
            "As C10; priors symbolic (shared through a node-name map); samples at time 0; ignore_oldest_root off.",
            TECH + "; relational (two-input) execution", "4/C11"),
    "C06": ("Relational symbolic execution with one symbolic scale factor c > 0 (every positive real) shared by "
            "two runs of the real code (rates / c; ages, eps, timepoints, population sizes * c). z3 proves "
            "on every path pair: the 14 approx.*_moments and 14 *_projection functions take the same skip "
            "decision and return means * c, variances * c^2, phases unchanged, natural parameters (alpha, "
            "beta / c); _constrain_ages(t c, eps c) = c _constrain_ages(t, eps) (<= 5 nodes, 0-1 "
            "iterations); mutational_timescale + piecewise_scale_point_estimate on cat3 with 1-2 "
            "intervals; PopulationSizeHistory with 1-2 epochs; whole InsideOutsideMethod.run / "
            "MaximizationMethod.run on cherry/cat3 with 2-3 grid points in both probability spaces.",
            "Kernel-wise claim: propagate_likelihood (one edge / block visit, moment functions replaced by related "
            "stubs whose argument correspondence is itself proved), propagate_prior (EM loop <= 2 iterations), "
            "_damp and _rescale are included; longer EP schedules and date() end to end are "
            "exercised only by the replays (public API at c in {3.7, 1e-3, 123456.789} and the model's c). "
            "Exact reals; hypergeometric Laplace approximations, exp/log/lgamma and the Poisson pmf are "
            "uninterpreted functions of their (proved scale-free) arguments.", TECH + "; two-run relational "
            "(product) encoding", "4/C06"),
    "C07": ("Relational symbolic execution on real tskit skeletons (<= 3 trees, <= 8 nodes, incl. diploid inputs "
            "with shared leaf edges) whose breakpoints, site positions and sequence length are symbols, at "
            "coordinates x with rate mu and at c x with rate mu / c for one symbolic c > 0: z3 proves every "
            "array the real ExpectationPropagation.__init__ derives (plain and size-biased mutation counts "
            "and spans * rate, singleton blocks, orders) identical, phased and unphased; whole "
            "InsideOutsideMethod.run / MaximizationMethod.run posterior means / variances identical in "
            "both probability spaces (2-3 grid points); SpansBySamples spans * c and mixture prior "
            "parameters identical.",
            "Variational part is proved at the data-extraction layer: the EP loop and rescale take no tree "
            "sequence argument, so equal extracted arrays give equal results (by the code's data flow, not "
            "re-proved). Exact reals; replays use the public API at non-integer factors.",
            TECH + "; two-run relational (product) encoding", "4/C07"),
    "C08": ("Two-run non-interference on 7 real skeletons (<= 3 trees, incl. multiply-hit sites and diploid "
            "individuals) with symbolic genome coordinates shared by both runs: the input and a copy that "
            "agrees only on edges, node times, sample flags, mutation positions / nodes (and individuals "
            "when unphased) and differs in all metadata, allele states, populations, individuals, other "
            "flag bits, mutation times, provenance, schema and 0-2 extra mutation-free sites. z3 proves all "
            "arrays derived by the real ExpectationPropagation.__init__ (phased and unphased), the "
            "posteriors of InsideOutsideMethod.run / MaximizationMethod.run (both spaces) and the "
            "SpansBySamples tables equal, and a recording proxy shows no attribute outside the model's "
            "allow-list is read on any path.",
            "The perturbed twin is one fixed perturbation per skeleton (not every possible one); reading of "
            "individuals in the phased case is allowed (masked out by the code) and covered by the "
            "comparison. Variational part at the data-extraction layer as for C07.",
            TECH + "; two-run relational (product) encoding with access recording", "4/C08"),
    "C18": ("For all real cavity parameters, counts >= 0, spans > 0 and fixed ages > 0 (scalar kernels, no "
            "loops) z3 proves: (1) each of the 14 projection wrappers returns the documented skip value or a "
            "proper gamma with positive mean and variance and phases in [0,1]; (2) the cases with elementary "
            "answers (child at time zero, twin, uniform mutation on an edge / block, mutation between a "
            "fixed and a free end) equal the answer written from the definition, with mean-between-the-ends "
            "and variance > 0; (3) moments, unphased_moments, leafward_moments, rootward_moments, "
            "sideways_moments, mutation_moments, mutation_unphased_moments, mutation_sideways_moments equal ratios of normalising integrals derived independently in the harness "
            "(validated once against quadrature), with log 2F1 / 1F1 / U uninterpreted.",
            "Narrowed: agreement of the Laplace approximations with numerical integration 'to within a few "
            "percent' and support facts needing the value of a transcendental ratio are not decidable by an "
            "SMT solver; they are used only as the replay oracle (quadrature on a fixed grid).",
            TECH + "; differential against an in-harness reference", "4/C18"),
    "C19": ("For every positive real x (symbolic, piecewise over the axis) z3 proves the executed arithmetic of "
            "_digamma/_trigamma equal to the exact recurrence plus the Stirling series with exact Bernoulli "
            "coefficients (to 1e-16) and bounds the first omitted term where the series is used (1e-14 / 1e-11 "
            "absolute) and the neglected term of the small-x forms (2e-10 / 2e-8 relative); _betaln equals its "
            "lgamma combination; approximate_gamma_mom matches mean and variance exactly iff both are positive; "
            "approximate_gamma_kl / _iqr (Newton loop followed for <= 2 iterations quick, <= 3 thorough, "
            "transcendental callees uninterpreted): positive shape <= cap, mean / lower quantile matched "
            "exactly, iterates are exactly Newton's method for the stated equation, exit only under the "
            "stated tolerance, cap only when exceeded, failures are KLMinimizationFailedError with the stated "
            "cause.",
            "Narrowed: convergence of the Newton iterations and floating-point rounding of the series are "
            "not decided; the enveloping property of the Stirling series is a textbook fact taken as given. "
            "Accuracy budgets are those the real code meets (it is not at machine precision near its "
            "cut-offs: 1.6e-10 relative for digamma at 1e-5, 4e-11 for trigamma at 5).", TECH, "4/C19"),
    "C38": ("outside_pass(ignore_oldest_root=True) on 6-10 small inputs incl. two-root inputs with the oldest root last "
            "and not last: every outside vector proved proportional to a reference pass that omits exactly the messages "
            "from the root with the greatest input time.  Reports the genuine defect F10 (oldest root not the last node) "
            "as a known finding.",
            "As C10; the reference pass uses the likelihood object's packing primitives verified by C10.",
            TECH + "; differential against an in-harness reference", "4/C38"),
})

CLAIMED.update({
    "C04": ("Data flow posteriors -> metadata on the real code with symbolic posteriors: get_modified_ts/"
            "set_time_metadata write row i = (mean[i], var[i]) for nodes and mutations (nothing for maximization); "
            "VariationalGammaMethod.run hands over node_posteriors()/mutation_posteriors() = ((a+1)/b, mean/b), (time,0) "
            "for samples, NaN kept; InsideOutsideMethod.run rows are >= 0, sum to 1, mn/vr are the rows' moments.",
            "tskit tables/schemas are recording stubs; JSON float round trip and tables.sort() row handling trusted.",
            TECH + "; data-flow obligations on symbolic terms", "4/C04"),
    "C05": ("Inductive invariant (alpha > -1, beta > 0, alpha+1 <= max_shape) proved preserved by every update rule of "
            "propagate_likelihood (phased and unphased), propagate_prior, from an arbitrary symbolic state on graphs "
            "with <= 5 nodes, moments 'NaN or arbitrary'; 14 projection wrappers skip-or-valid; infer's flip leaves "
            "phases NaN or in [0.5,1] and passes max_shape to rescale; approximate_gamma_iqr shape in (0,max_shape].",
            "Moment functions are over-approximated (their finiteness in floating point is not claimed); max_shape > 1; "
            "Newton loop of approximate_gamma_iqr followed for <= 2 iterations; exact reals.",
            TECH + "; inductive step from an arbitrary state, QF_NRA", "4/C05"),
    "C20": ("ExpectationPropagation.iterate run symbolically from the initial state on stars (2-3 leaves, two stars, "
            "two-tree polytomy; 1-3 sweeps quick, up to 5 / 4 leaves thorough) with symbolic counts, spans, max_shape: "
            "uncapped => shape = 1 + sum(y), rate = sum(mu) after every sweep (proved); capped => one-factor scaling "
            "(fails: known finding F12, replayed through variational_gamma).",
            "min_step = 0.1, regularise off, no rescaling; exact reals.", TECH + "; QF_NRA", "4/C20"),
    "C21": ("Inductive invariant posterior = scale x (prior + constraint + edge + block messages), scale > 0, fixed rows "
            "untouched: proved preserved by every update rule of propagate_likelihood, by propagate_prior and "
            "_rescale_factors (which also leaves posteriors unchanged with scale = 1) from an arbitrary symbolic state.",
            "Moment functions over-approximated; pre-state satisfies C05's invariant; exact reals (TINY-threshold "
            "cancellation is a floating-point matter).", TECH + "; inductive step from an arbitrary state, QF_NRA", "4/C21"),
    "C32": ("set_time_metadata's decision table explored completely over set_metadata x schema kind x existing "
            "metadata x 0-3 rows x var None, with symbolic values: untouched / written keeping fields / refused with "
            "a warning / dropped + default schema, every row carrying exactly the caller's mn, vr.",
            "tskit codecs abstracted to can/cannot encode (recording stub); policy logic only.",
            TECH + "; exhaustive enumeration of the discrete configuration space", "4/C32"),
})

CLAIMED.update({
    "C22": ("Relational: _block_singletons on inputs (symbolic coordinates) and re-phased copies gives identical blocks, "
            "spans, counts and block membership; blocks are the two leaf edges of one individual covering the mutation; "
            "phased individuals are never blocked; infer+rescale prefix on two input phasings uses identical counts, also when one fitted phase is undefined (NaN).",
            "EP's block updates depend on the input only through block_likelihoods/block_nodes; fitted phases not NaN.",
            TECH + "; relational (two-input) execution", "4/C22"),
    "C23": ("infer (flip/placement) + rescale prefix + reallocate_unphased with symbolic phases in [0,1] on 4 layouts (incl. a leaf edge shared by two blocks) x both "
            "match_segregating_sites: phased edges/spans unchanged, each block's edges get exactly its singletons in total, "
            "the placed edge gets the share >= 1/2.  Found defects F7 (repaired: 8c402f4) and F15 (undefined phase, repaired: 434785f); one singleton may have an undefined (NaN) phase.",
            "Fitted phases not NaN; rest of rescale is C25.", TECH, "4/C23"),
    "C24": ("_count_mutations (plain / frequency-weighted / explicit sample set), the public count_mutations(ts) wrapper "
            "and _block_singletons on 14 skeletons (incl. multiply-hit / monomorphic sites, a mutation above a local root) with "
            "symbolic breakpoints, length and site positions: every edge span / mutation tally / block span / singleton "
            "count equals a direct per-tree tally via tskit's Tree API.  Found defect F5 (repaired: cd76f03).",
            "tskit index arrays of the skeleton (depend only on coordinate order).", TECH, "4/C24"),
    "C25": ("mutational_area = direct overlap sums for every ordering of node times; point map = reference piecewise-linear "
            "map, fixes 0, monotone, fixed untouched; one rescaling iteration keeps samples and node order; re-projected "
            "posterior has mapped mean, positive rate, shape in (0, max_shape]; approximate_gamma_iqr capped.",
            "gammainc_inv uninterpreted (positive, increasing in q); Newton loops followed for <= 2 iterations; zero-count "
            "intervals are C35's finding F3.", TECH + "; QF_NRA", "4/C25"),
    "C26": ("_fixed_changepoints on symbolic count vectors (length 1-5, entries >= 0 incl. exact zeros, 1-4 epochs): ends 0 "
            "and n, non-decreasing, interior boundary k is the last index with cumulative fraction <= k/epochs.",
            "Only the fixed-changepoint helper (the one date() uses) is claimed; the Poisson/PELT helper's optimality needs "
            "x*log(x) values no installed SMT theory decides and is stated as not decided.", TECH, "4/C26"),
    "C29": ("_split_disjoint_nodes + _relabel_mutations_node on 11 skeletons with symbolic coordinates: edges map back "
            "(local trees unchanged), leftmost piece keeps id, new ids = split_nodes, contiguity, samples never split, "
            "mutations on the piece present at their position.  Known finding F11 (edgeless nodes / trailing gap).",
            "Node-table rewrite and metadata packing are tskit's.", TECH, "4/C29"),
    "C30": ("_contains_unary_nodes with symbolic breakpoints (with/without sample mask) equals a per-tree oracle on 18 "
            "skeletons (incl. unary nodes that appear at removal-only breakpoints); contains_unary_nodes, has_locally_unary_nodes, _check_valid_inputs compared with the same oracle.",
            "tskit index arrays of the skeleton.", TECH, "4/C30"),
    "C34": ("run_date/run_preprocess with recorders and solver-chosen present/absent/explicit-zero options: each option "
            "reaches the API under its name as the same object, invalid combinations exit before load/dump, valid ones "
            "call once and dump once; boolean option spellings convert correctly.  Found defect F9 (repaired: b5774cf).",
            "File equality follows from equal kwargs plus determinism (C09, not decided).", TECH + "; data-flow", "4/C34"),
    "C35": ("Validation layer of date()/variational_gamma/inside_outside/maximization with solver-chosen parameters (symbolic "
            "reals, NaN/inf/None, small integer sets, presence flags; inputs with mutations, with sites but no mutation, without sites) and marker engines: only ValueError/NotImplementedError, "
            "rejected before the engine, every validity condition implied on returning paths, result shape; rescaling "
            "kernels with zero counts (known finding F3).  Found defects F1, F2, F4, F14 (repaired).",
            "Bounded: one small input; engines are markers; EP kernel assertions are C05/C21; discrete-method rate "
            "validation happens inside the engine.", TECH, "4/C35"),
    "C37": ("rescale_tree_sequence on 5-7 skeletons (incl. a mutation above a node that is a root only on part of the genome) with symbolic node times and rate, recording tables: returns, samples "
            "kept, monotone map, mutations at branch midpoints / at the node above roots.  Found defect F6 (repaired: 04dea37).",
            "tskit validation of rebuilt tables trusted; zero-count intervals are C35/F3.", TECH, "4/C37"),
})

CLAIMED.update({
    "C28": ("preprocess_ts on a recording stub with symbolic site positions / length / minimum_gap and solver-chosen "
            "options (0-4 sites): intervals passed to delete_intervals are non-empty, sorted, disjoint, site-free and inside "
            "a flank (only if erase_flanks) or a gap >= minimum_gap; user intervals unchanged; simplify once with the given "
            "flags and no sample list; node times never written; split/provenance exactly when asked; invalid combos rejected.",
            "Genotype/sample preservation by delete_intervals + simplify is tskit's contract (trusted).",
            TECH + "; data-flow + QF_LRA obligations", "4/C28"),
    "C31": ("sites_time_from_ts / nodes_time_unconstrained / add_sampledata_times on 4 skeletons (roots with mutations, "
            "two mutations per site, empty sites) with symbolic node times, mn values, min_time: per-site result is the max "
            "of the selected summaries and min_time, NaN without mutations; element-wise max for sample data.",
            "json decoding and tsinfer.SampleData are stubs; sqrt is an uninterpreted non-negative root.", TECH, "4/C31"),
    "C33": ("Histories of two real calls (each method, preprocess_ts) with solver-chosen parameters and record flags: "
            "exactly one schema-valid record per recording call, earlier records byte-identical, command named, parameter "
            "names and values exactly those of that call, nothing added when recording is off.",
            "Concrete small input executed under NUMBA_DISABLE_JIT; timing/resources fields ignored.",
            TECH + "; exhaustive enumeration of parameter alternatives by the solver", "4/C33"),
})

CLAIMED.update({
    "C14": ("_marginalize_over_ancestors run in exact arithmetic on a SYMBOLIC moment table for n = 3..12 (..40 thorough): "
            "out[k] = sum_a P(a|k,n) val[a] with the closed-form ancestor-count distribution; tau_expect and the variance "
            "vector equal the Kingman moments recomputed from the definition for n up to 256 (320 thorough); gamma_approx / "
            "lognorm_approx are exact moment matches for all mean, var > 0; add() stores (func_approx(mean,var), mean, var).",
            "'Exact' in real arithmetic; the float64 variance vector is compared to the exact rational to 1e-9; n bounded.",
            TECH + "; exact rational evaluation + polynomial identity normalisation", "4/C14"),
    "C15": ("SpansBySamples on 9 skeletons (incl. missing samples, disjoint nodes, changing roots) with symbolic breakpoints: "
            "every (samples in tree, samples below node) span equals the total length of the trees with that pair, spans sum "
            "to the node span; mixture_expect_and_var / get_mixture_prior_params pass exactly the span-weighted mixture "
            "mean/variance of symbolic per-(T,k) priors to func_approx; with real span records (the cache of small "
            "mixtures live) every node gets func_approx of its own mixture.",
            "tskit tree traversal is real; only Tree.interval/span are symbolic; no unary nodes.", TECH, "4/C15"),
    "C16": ("fill_priors / make_discretised_prior with symbolic prior parameters, coalescent grid and 1-2 epoch sizes, "
            "uninterpreted monotone cdfs: grid = to_natural(coalescent grid) (= sorted user grid when explicit), rows 0 at "
            "time 0, proportional to interval masses, in [0,1] with max 1, samples without rows, invalid grids rejected.",
            "Distribution functions uninterpreted (monotone, cdf(0)=0); create_timepoints' quantile thinning not decided.",
            TECH, "4/C16"),
})

NOT_APPLICABLE = {
    "C02": "Every row/column effect of get_modified_ts happens inside tskit's C table routines on concrete "
           "arrays; no symbolic input reaches a branch of tsdate code, so there is nothing for a solver to "
           "decide (the one tsdate-side degree of freedom, mutation nodes, is covered by C22).",
    "C09": "Quantifies over process restarts, hash seeds and multiprocessing scheduling; none is an input of "
           "a function that can be executed symbolically, and bit-identity across runs is not an SMT question.",
    "C36": "Quantifies over crash points of np.savetxt and interleavings of writer processes on a real file "
           "system (NumPy text I/O + OS); modelling the file as a symbolic string would verify the model, "
           "not the code.",
}

NOT_BUILT = "check not built yet in this session (design in DESIGN.md section 4); not claimed until it is"


def main():
    checks = []
    for pid in ALL:
        if pid not in CLAIMED:
            continue
        text, note, tech, ref = CLAIMED[pid]
        checks.append({
            "property_id": pid,
            "quick_cmd": f"./check {pid} --tier quick",
            "thorough_cmd": f"./check {pid} --tier thorough",
            "evidence_file": f"evidence/{pid}.json",
            "replay_cmd_template": f"./check {pid} --replay {{path}}",
            "engine": "symx",
            "level_claimed": {"category": "other", "text": text, "design_ref": "DESIGN.md " + ref},
            "level_note": note,
            "technique": tech,
        })
    na = []
    for pid in ALL:
        if pid in CLAIMED:
            continue
        na.append({"property_id": pid, "reason": NOT_APPLICABLE.get(pid, NOT_BUILT)})
    m = {
        "version": 1,
        "setup_cmd": "./setup.sh",
        "hooks": {
            "guard": "TSDATE_VERIF",
            "enable": "no source hooks are needed: checks import /repo with NUMBA_DISABLE_JIT=1 and "
                      "TSDATE_VERIF=1 and swap module globals at run time",
            "baseline_off_cmd": "cd /repo && /venv/bin/python -m pytest -ra -q -p no:cacheprovider "
                                "--timeout=900 --continue-on-collection-errors",
            "source_commits": [],
            "add_only": True,
        },
        "engines": [
            {"name": "symx", "path": "symx/", "serves_properties": sorted(CLAIMED),
             "kind_free_text": "symbolic execution of the real tsdate functions on NumPy object arrays of "
                               "exact rational-function / IEEE-double symbolic scalars; DFS over branch "
                               "decisions by re-execution; z3 5.1 decides feasibility and obligations"},
        ],
        "checks": checks,
        "not_applicable": na,
        "notes": "Exit codes: 0 held / only known findings; 1 VIOLATION (replayed on the JIT-compiled code); "
                 "3 inconclusive or harness error (never reported as success).",
    }
    with open(os.path.join(HERE, "MANIFEST.json"), "w") as f:
        json.dump(m, f, indent=1)
    print("claimed", len(checks), "n/a", len(na))


if __name__ == "__main__":
    main()
