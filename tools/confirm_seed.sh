#!/bin/bash
# tools/confirm_seed.sh <ID> [suffix] : confirm a sub-agent's seeded change in ITS scratch worktree
# (tests pass with patch, demo fails with patch, demo passes without), then store it under seeded/.
set -u
ID=$1; SUF=${2:-}
WT=/tmp/seed/wt-$ID$SUF; OUT=/tmp/seed/out-$ID$SUF; DST=/verif/seeded/$ID$SUF
LOG=/tmp/seed/confirm-$ID$SUF.log
exec >"$LOG" 2>&1
cd "$WT" || exit 2
git -C "$WT" checkout -q -- . && git -C "$WT" apply "$OUT/patch.diff" || { echo "PATCH DOES NOT APPLY"; exit 2; }
echo "== tests with patch"
PYTHONPATH=$WT timeout 3600 /venv/bin/python -m pytest -q -p no:cacheprovider --timeout=900 -n 6 2>&1 | tail -5
T=${PIPESTATUS[0]}
echo "tests_exit=$T"
echo "== demo with patch"
(cd "$OUT" && PYTHONPATH=$WT timeout 1200 /venv/bin/python demo.py 2>&1 | tail -15; echo "demo_with_patch_exit=${PIPESTATUS[0]}")
git -C "$WT" checkout -q -- .
echo "== demo without patch"
(cd "$OUT" && PYTHONPATH=$WT timeout 1200 /venv/bin/python demo.py 2>&1 | tail -5; echo "demo_without_patch_exit=${PIPESTATUS[0]}")
git -C "$WT" apply "$OUT/patch.diff"
echo "== done"
