import sys, time
sys.path.insert(0,'/verif')
from symx import load
load.ensure_env()
from symx.ctx import explore, Ctx
from checks import c20
star, sweeps, regime, mp = sys.argv[1], int(sys.argv[2]), sys.argv[3], int(sys.argv[4])
t0=time.time()
cx = Ctx(max_paths=mp)
explore(lambda c: c20.h_star(c, star, sweeps, regime), cx)
bad=[(r.name,r.status) for r in cx.results if r.status!='unsat']
print(cx.stats.as_dict(), cx.exhausted, round(time.time()-t0,1), bad[:6], cx.tags, cx.events[:2], flush=True)
