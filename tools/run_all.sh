#!/bin/bash
# tools/run_all.sh <tier> : run every claimed check sequentially, log exit codes to work/all-<tier>.log
cd "$(dirname "$0")/.."
tier=${1:-quick}
log=work/all-$tier.log
: > $log
for id in $(python3 -c "import json;print(' '.join(c['property_id'] for c in json.load(open('MANIFEST.json'))['checks']))"); do
  t0=$(date +%s)
  ./check $id --tier $tier > work/$id.$tier.out 2> work/$id.$tier.err
  rc=$?
  echo "$id exit=$rc wall=$(( $(date +%s) - t0 ))s $(grep -c '^VIOLATION' work/$id.$tier.out) violations; $(grep '^\[' work/$id.$tier.out | tail -1)" >> $log
done
echo DONE >> $log
