import sys, time, os
sys.path.insert(0,'/verif')
from symx import load
load.ensure_env()
from symx.ctx import explore, Ctx
from checks import ep_cases
idx, depth = int(sys.argv[1]), int(sys.argv[2])
W = sys.argv[3].split(",")
t0=time.time()
cx = Ctx(shard=(idx, depth), max_paths=100000)
explore(lambda c: ep_cases.h_likelihood(c, config="chain", order=[3], which=W), cx)
print(cx.stats.as_dict(), cx.exhausted, round(time.time()-t0,1), [(r.name,r.status) for r in cx.results if r.status!='unsat'][:5])
