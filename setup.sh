#!/bin/bash
# Offline, idempotent: overlay venv on /venv with z3-solver, cvc5, crosshair-tool from the wheelhouse.
set -e
cd "$(dirname "$0")"
if [ ! -x .venv/bin/python ] || ! .venv/bin/python -c "import z3, numpy, tskit" 2>/dev/null; then
  rm -rf .venv
  /venv/bin/python -m venv .venv
  SP=$(.venv/bin/python -c "import sysconfig; print(sysconfig.get_paths()['purelib'])")
  echo "import site; site.addsitedir('/venv/lib/python3.12/site-packages')" > "$SP/_base.pth"
  PIP_NO_INDEX=1 .venv/bin/pip install -q --no-index --find-links /opt/veriftools/wheels z3-solver cvc5 crosshair-tool
fi
mkdir -p work evidence replays
.venv/bin/python -c "import z3, numpy, tskit, numba; print('setup ok: z3', z3.get_version_string())"
