"""C01 - dated output has every branch at least min_branch_length long.

Solver-decided part: the real util._constrain_ages / util.constrain_ages and the tail of
EstimationMethod.get_modified_ts (data flow from the posterior means to the node-time
column and the order of the tskit table calls that recompute mutation times)."""
import numpy as np

from checks import common, constrain
from checks.common import Case


class _RecTable:
    def __init__(self, log, name, cols):
        object.__setattr__(self, "_log", log)
        object.__setattr__(self, "_name", name)
        object.__setattr__(self, "_cols", dict(cols))

    def __getattr__(self, k):
        cols = object.__getattribute__(self, "_cols")
        if k in cols:
            return cols[k]
        raise AttributeError(k)

    def __setattr__(self, k, v):
        self._log.append(("set", self._name + "." + k, v))
        self._cols[k] = v


class _RecTables:
    def __init__(self, log, ts):
        self._log = log
        self.nodes = _RecTable(log, "nodes", {"time": ts.nodes_time.copy()})
        self.mutations = _RecTable(log, "mutations", {
            "time": ts.mutations_time.copy(), "parent": ts.mutations_parent.copy(),
            "node": ts.mutations_node.copy()})
        self._time_units = None

    @property
    def time_units(self):
        return self._time_units

    @time_units.setter
    def time_units(self, v):
        self._log.append(("set", "time_units", v))
        self._time_units = v

    def _call(name):
        def f(self, *a, **k):
            self._log.append(("call", name, None))
            if name == "tree_sequence":
                return ("RESULT-TS", id(self))
        return f

    sort = _call("sort")
    build_index = _call("build_index")
    compute_mutation_parents = _call("compute_mutation_parents")
    compute_mutation_times = _call("compute_mutation_times")
    tree_sequence = _call("tree_sequence")


class _StubTS:
    def __init__(self, ts, log):
        self._ts = ts
        self._log = log

    def __getattr__(self, k):
        return getattr(self._ts, k)

    def dump_tables(self):
        self.tables_stub = _RecTables(self._log, self._ts)
        return self.tables_stub


def h_modified_ts(ctx, skel, iters):
    """Real EstimationMethod.get_modified_ts with recording tables; real constrain_ages."""
    import tskit
    from symx import load
    from symx.dom import sym, Or
    core = load.tsdate_module("core")
    util = load.tsdate_module("util")
    ts, ep, ec, fixed = constrain.structure(skel)
    n = ts.num_nodes
    mean = np.empty(n, dtype=object)
    for i in range(n):
        mean[i] = sym(f"t{i}", "nonneg")
    for p, c in set(zip(map(int, ep), map(int, ec))):
        if fixed[p] and fixed[c]:
            ctx.assume(mean[p] > mean[c])
    eps = sym("eps", "pos")
    log = []
    self = object.__new__(core.EstimationMethod)
    self.ts = _StubTS(ts, log)
    self.time_units = "generations"
    self.set_metadata = False
    self.min_branch_length = eps
    self.constr_iterations = iters
    self.provenance_params = None
    self.name = "stub"
    mut_node = ts.mutations_node.copy()
    res = core.Results(mean, None, None, None, None, mut_node, None)
    with load.patched(util) as npx:
        npx.fork_isclose = False   # np.isclose only feeds a log message in constrain_ages
        try:
            ret = self.get_modified_ts(res)
        except Exception as e:
            ctx.fail("no-exception", detail={"exception": repr(e)})
            return
    sets = [(i, k, v) for i, (op, k, v) in enumerate(log) if op == "set"]
    calls = [(i, k) for i, (op, k, v) in enumerate(log) if op == "call"]
    tset = [(i, v) for i, k, v in sets if k == "nodes.time"]
    ctx.prove("flow:node_time_set_once", len(tset) == 1)
    if len(tset) != 1:
        return
    it, V = tset[0]
    for name, claim in constrain.obligations(["edges"] + (["max"] if iters == 0 else []),
                                             ep, ec, fixed, mean, V, eps, iters, Or):
        ctx.prove("flow:" + name, claim)
    order = [k for _, k in calls]
    want = ["sort", "build_index", "compute_mutation_parents", "compute_mutation_times",
            "tree_sequence"]
    ctx.prove("flow:table_call_sequence", order == want)
    mt = [(i, v) for i, k, v in sets if k == "mutations.time"]
    icm = dict((k, i) for i, k in calls).get("compute_mutation_times", -1)
    ok_unknown = len(mt) == 1 and mt[0][0] < icm and bool(np.all(tskit.is_unknown_time(mt[0][1])))
    ctx.prove("flow:mutation_times_reset_then_recomputed", ok_unknown)
    ctx.prove("flow:node_times_set_before_mutation_times", it < icm)
    mn = [(i, v) for i, k, v in sets if k == "mutations.node"]
    ctx.prove("flow:mutation_nodes_from_result",
              len(mn) == 1 and mn[0][1] is mut_node and mn[0][0] < icm)
    ctx.prove("flow:returns_rebuilt_tree_sequence",
              isinstance(ret, tuple) and ret[0] == "RESULT-TS")


def cases(tier):
    cs = []
    skels = constrain.SKELS_QUICK if tier == "quick" else constrain.SKELS_ALL
    for sk in skels:
        for k in constrain.iteration_bounds(sk, tier):
            cs.append(Case(f"edges:{sk}:k={k}", constrain.h_kernel,
                           dict(skel=sk, iters=k, which=["edges"]), weight=1 + 10 * k))
    for sk in ["cherry", "cat3", "internal_sample", "two_parents"]:
        cs.append(Case(f"flow:{sk}:k=0", h_modified_ts, dict(skel=sk, iters=0)))
        if sk != "two_parents" or tier == "thorough":
            cs.append(Case(f"flow:{sk}:k=1", h_modified_ts, dict(skel=sk, iters=1), weight=5))
    # IEEE-double harness: symbolic eps on the 2-edge tree, the default / a large eps elsewhere
    # (the bit-vector model of np.nextafter makes symbolic-eps queries on 4 edges exceed 420 s)
    cs.append(Case("fp-edges:cherry:eps=sym", constrain.h_kernel_fp,
                   dict(skel="cherry", which=["edges"], eps_value=None, qtimeout_ms=120000),
                   weight=50))
    # sized by a full thorough run: 6-edge skeletons and eps = 1.0 on 4 edges exceed 900 s
    fp = [("cat3", 1e-8), ("internal_sample", 1e-8)]
    if tier == "thorough":
        fp += [("cat3", 1e-6), ("internal_sample", 1e-6), ("tri", 1e-8), ("tri", 1e-6), ("tri", 1.0)]
    for sk, ev in fp:
        cs.append(Case(f"fp-edges:{sk}:eps={ev}", constrain.h_kernel_fp,
                       dict(skel=sk, which=["edges"], eps_value=ev, qtimeout_ms=120000,
                            case_timeout_s=2400 if tier == "thorough" else 420),
                       weight=50))
    if tier == "thorough":
        from symx import skeletons as SK
        for sk in ["cat3", "bal4", "two_parents", "internal_sample"]:
            ts = SK.all_named()[sk]()
            for i, order in enumerate(SK.children_first_orders(ts, limit=24)):
                cs.append(Case(f"edges:{sk}:order{i}", constrain.h_kernel,
                               dict(skel=sk, iters=(1 if sk in constrain._SMALL else 0), which=["edges"], order=list(order)),
                               weight=8))
    return cs


def run(tier, seed, t0):
    from symx import npx
    cs = cases(tier)
    outs = common.run_cases(cs)
    return common.finish(
        "C01", tier, seed, t0, outs,
        explanation="Bounded symbolic execution of the real util._constrain_ages, "
        "util.constrain_ages and EstimationMethod.get_modified_ts (recording table stub) on "
        "symbolic posterior means; z3 proves on every path that each parent ends at least "
        "min_branch_length above each child (exact reals, 0-2/3 least-squares iterations; IEEE "
        "doubles for the forced pass) and that mutation times are reset and recomputed by "
        "tskit after the node times are written.",
        functions=["tsdate.util._constrain_ages", "tsdate.util.constrain_ages",
                   "tsdate.core.EstimationMethod.get_modified_ts"],
        bounds={"skeletons": sorted({c.kw["skel"] for c in cs}), "max_nodes": 7,
                "least_squares_iterations": "0-2 quick, 0-3 thorough (Q); 0 (FP)",
                "values": "all real times / eps>0 (Q); all finite doubles >= 0, finite eps>0 (FP)"},
        stubs=["tskit TableCollection replaced by a recording stub in get_modified_ts (sort, "
               "build_index, compute_mutation_parents/times, tree_sequence are trusted C code)",
               "set_time_metadata disabled (set_metadata=False)",
               "numpy via symx.npx proxy; np.isclose in constrain_ages (log message only) does not fork"],
        assumptions=["edge rows are children-first (tskit sortedness)",
                     "sample parent strictly older than sample child in the input",
                     "tskit.compute_mutation_times places each mutation between its node and the node above",
                     "strict inequality parent>child on doubles is only claimed where fl(child+eps)>child "
                     "(absorption for child >= 2^27*eps-ish is reported under C35)"],
        out_of_scope=["tskit C routines", "rounding inside the least-squares phase",
                      "end-to-end date() runs"],
        validated=npx.validate(),
        expect_tags=["pushed"],
    )


def replay(payload):
    if payload["case"].startswith("flow:"):
        return _replay_flow(payload)
    return constrain.replay(payload)


def _replay_flow(payload):
    """Data-flow findings are replayed through the public API on a real tree sequence."""
    import tsdate
    from symx import skeletons as SK
    import tskit
    case = payload["case_kw"]
    ts = SK.all_named()[case["skel"]]()
    eps = 0.5
    try:
        out = tsdate.date(ts, mutation_rate=1.0, method="variational_gamma",
                          min_branch_length=eps, constr_iterations=case["iters"],
                          rescaling_intervals=0, max_iterations=2)
    except Exception as e:
        return True, f"date() raised {e!r}"
    bad = []
    for e in out.edges():
        if not out.nodes_time[e.parent] >= out.nodes_time[e.child] + eps * (1 - 1e-9):
            bad.append((e.parent, e.child, out.nodes_time[e.parent], out.nodes_time[e.child]))
    for m in out.mutations():
        if tskit.is_unknown_time(m.time):
            bad.append(("mutation time unknown", m.id))
    return bool(bad), f"min_branch_length={eps}: {bad[:4]}"
