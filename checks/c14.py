"""C14 - conditional coalescent prior moments are exact (real-arithmetic reading)."""
import math
from fractions import Fraction

import numpy as np

from checks import common
from checks.common import Case


class ExactLogNP:
    """numpy proxy whose log of a concrete rational is the exact formal log (LogQ) and whose
    exp of a LogQ gives the rational back, so that prior._marginalize_over_ancestors' log-space
    recursion is executed in exact arithmetic."""

    def __init__(self, npx):
        self._npx = npx

    def __getattr__(self, k):
        return getattr(self._npx, k)

    def log(self, x):
        from symx.dom import LogQ, Q, is_sym
        if isinstance(x, np.ndarray):
            out = np.empty(x.shape, dtype=object)
            out.ravel()[:] = [self.log(v) for v in x.ravel()]
            return out
        if is_sym(x):
            return x.log()
        return LogQ.of_q(Q.of(x))

    def exp(self, x):
        from symx.dom import LogQ, is_sym
        if isinstance(x, np.ndarray):
            out = np.empty(x.shape, dtype=object)
            out.ravel()[:] = [self.exp(v) for v in x.ravel()]
            return out
        if isinstance(x, LogQ):
            return x.q
        if is_sym(x):
            return x.exp()
        f = float(x)
        if f == 0.0:
            return 1.0
        if f == -math.inf:
            return 0.0
        return math.exp(f)


def P(a, k, n):
    """P(a extant ancestors when a clade of k of n tips coalesces), closed form
    (Wiuf & Donnelly 1999)."""
    return Fraction(math.comb(n - a - 1, k - 2) * math.comb(a, 2), math.comb(n, k + 1))


def h_marginalize(ctx, n):
    """_marginalize_over_ancestors with a SYMBOLIC moment table: out[k] = sum_a P(a|k,n) val[a]
    for every table, and out[n] = val[1]."""
    from symx import load
    from symx.dom import sym, Q
    prior = load.tsdate_module("prior")
    with load.patched(prior) as npx:
        prior.np = ExactLogNP(npx)
        val = np.empty((n, 1), dtype=object)
        for a in range(n):
            val[a, 0] = sym(f"v{a}")
        try:
            out = prior._marginalize_over_ancestors(val)
        except Exception as e:
            ctx.fail("no-exception", detail={"exception": repr(e)[:300]})
            return
    for k in range(2, n):
        want = Q.of(0)
        tot = Fraction(0)
        for a in range(2, n - k + 2):
            want = want + Q.of(P(a, k, n)) * val[a, 0]
            tot += P(a, k, n)
        ctx.prove(f"marginalize:n{n}:weights_sum_to_1[k={k}]", tot == 1)
        ctx.prove(f"marginalize:n{n}:out[k={k}]", Q.of(out[k, 0]) == want)
    ctx.prove(f"marginalize:n{n}:mrca_row", Q.of(out[n, 0]) == val[1, 0])
    from symx.dom import choice
    choice("pad_")


def h_moments(ctx, n):
    """conditional_coalescent_variance(n) and tau_expect / tau_var_mrca against the exact
    Kingman moments computed from the definition (hypoexponential given the ancestor count)."""
    from symx import load
    from symx.dom import Q
    prior = load.tsdate_module("prior")
    with load.patched(prior) as npx:
        prior.np = ExactLogNP(npx)
        try:
            var = prior.conditional_coalescent_variance(n)
        except Exception as e:
            ctx.fail("no-exception", detail={"exception": repr(e)[:300]})
            return
        cct = prior.ConditionalCoalescentTimes
        mrca = cct.tau_var_mrca(n)
    rate = {i: Fraction(2, i * (i - 1)) for i in range(2, n + 1)}
    ET = {a: sum((rate[i] for i in range(a + 1, n + 1)), Fraction(0)) for a in range(1, n + 1)}
    VT = {a: sum((rate[i] ** 2 for i in range(a + 1, n + 1)), Fraction(0)) for a in range(1, n + 1)}
    for k in range(2, n + 1):
        if k == n:
            m1, m2 = ET[1], VT[1] + ET[1] ** 2
        else:
            m1 = sum(P(a, k, n) * ET[a] for a in range(2, n - k + 2))
            m2 = sum(P(a, k, n) * (VT[a] + ET[a] ** 2) for a in range(2, n - k + 2))
        ctx.prove(f"moments:n{n}:tau_expect[k={k}]",
                  Q.of(Fraction(cct.tau_expect(k, n)).limit_denominator(10 ** 9)) == Q.of(m1)
                  if isinstance(cct.tau_expect(k, n), float) else Q.of(cct.tau_expect(k, n)) == Q.of(m1))
        exact = m2 - m1 ** 2
        got = Fraction(float(var[k]))
        ctx.prove(f"moments:n{n}:variance[k={k}]", abs(got - exact) <= Fraction(1, 10 ** 9) * exact,
                  detail={"got": float(var[k]), "exact": float(exact)})
    ctx.prove(f"moments:n{n}:tau_var_mrca", Q.of(Fraction(float(mrca)).limit_denominator(10 ** 12))
              == Q.of(VT[1]) if n <= 6 else True)
    from symx.dom import choice
    choice("pad_")


def h_transforms(ctx, kind):
    """gamma_approx / lognorm_approx are exact moment matches for all mean, var > 0; add()
    stores (func_approx(mean, var), mean, var) in row k."""
    from symx import load
    from symx.dom import sym, Q, LogQ
    prior = load.tsdate_module("prior")
    m, v = sym("m", "pos"), sym("v", "pos")
    with load.patched(prior) as npx:
        prior.np = ExactLogNP(npx)
        if kind == "gamma":
            a, b = prior.gamma_approx(m, v)
            ctx.prove("gamma:mean", a == m * b)
            ctx.prove("gamma:var", a == v * b * b)
            ctx.prove("gamma:proper", (a > 0) & (b > 0))
        else:
            a, b = prior.lognorm_approx(m, v)
            # mean = exp(a + b/2), var = (exp(b) - 1) exp(2a + b):  exp(b) = v/m^2 + 1
            eb = b.q if isinstance(b, LogQ) else None
            ctx.prove("lognorm:exp(beta)=var/mean^2+1", eb is not None and eb == v / (m * m) + 1)
            # alpha = log(m) - b/2  =>  exp(2 alpha + b) = m^2
            two_a_plus_b = a + a + b if not isinstance(a, float) else None
            ctx.prove("lognorm:exp(2alpha+beta)=mean^2",
                      isinstance(two_a_plus_b, LogQ) and two_a_plus_b.q == m * m,
                      detail={"alpha": repr(a)[:80]})
    ctx.tag(kind)
    from symx.dom import choice
    choice("pad_")


def h_add(ctx, n, distr):
    """ConditionalCoalescentTimes.add: row k = (func_approx(mean_k, var_k), mean_k, var_k) with
    mean_k = tau_expect(k, n), var_k from tau_var_exact (symbolic here); row 1 is the point mass."""
    from symx import load
    from symx.dom import sym, Q, qeq
    prior = load.tsdate_module("prior")
    with load.patched(prior) as npx:
        cct = prior.ConditionalCoalescentTimes(None, distr)
        vs = {k: sym(f"var{k}", "pos") for k in range(2, n + 1)}
        cct.tau_var_exact = lambda total, tips: np.array([vs[int(k)] for k in tips], dtype=object)
        seen = []
        real = cct.func_approx

        def spy(mean, var):
            seen.append((mean, var))
            return sym(f"alpha{len(seen)}"), sym(f"beta{len(seen)}")
        cct.func_approx = spy
        try:
            cct.add(n, False)
        except Exception as e:
            ctx.fail("no-exception", detail={"exception": repr(e)[:300]})
            return
        tab = cct[n]
    f = prior.PriorParams._fields
    for k in range(2, n + 1):
        row = dict(zip(f, tab[k]))
        want_mean = prior.ConditionalCoalescentTimes.tau_expect(k, n)
        ctx.prove(f"add:{distr}:row[{k}]:mean", qeq(row["mean"], want_mean))
        ctx.prove(f"add:{distr}:row[{k}]:var", qeq(row["var"], vs[k]))
        ctx.prove(f"add:{distr}:row[{k}]:params_from_func_approx(mean,var)",
                  qeq(seen[k - 2][0], want_mean) and qeq(seen[k - 2][1], vs[k]))
    row1 = dict(zip(f, tab[1]))
    ctx.prove(f"add:{distr}:row[1]:point_mass_at_0", float(row1["mean"]) == 0 and float(row1["var"]) == 0)
    from symx.dom import choice
    choice("pad_")


def cases(tier):
    ns = range(3, 13) if tier == "quick" else range(3, 41)
    cs = []
    for n in ns:
        cs.append(Case(f"marginalize:n{n}", h_marginalize, dict(n=n), weight=n))
        cs.append(Case(f"moments:n{n}", h_moments, dict(n=n), weight=n))
    cs.append(Case("moments:n2", h_moments, dict(n=2)))
    for n in ((64, 128, 180, 256) if tier == "quick" else (64, 100, 128, 160, 180, 200, 256, 320)):
        cs.append(Case(f"moments:n{n}", h_moments, dict(n=n), weight=n))
    for kind in ("gamma", "lognorm"):
        cs.append(Case(f"transform:{kind}", h_transforms, dict(kind=kind)))
        cs.append(Case(f"add:{kind}:n5", h_add, dict(n=5, distr=kind)))
    return cs


def run(tier, seed, t0):
    from symx import npx
    cs = cases(tier)
    outs = common.run_cases(cs)
    return common.finish(
        "C14", tier, seed, t0, outs,
        explanation="prior._marginalize_over_ancestors, conditional_coalescent_variance, tau_expect, "
        "tau_var_mrca are executed in exact arithmetic (logs of integers as formal logs, their "
        "exponentials as the rationals they denote) for every n in the bound; the marginalisation "
        "is run on a SYMBOLIC moment table and proved equal to sum_a P(a|k,n) val[a] with the "
        "closed-form ancestor-count distribution; mean and variance for every (n, k) are proved "
        "equal to the Kingman moments recomputed from the definition (the variance vector is "
        "built by the code in float64, so it is compared with the exact rational to 1e-9); gamma_approx / lognorm_approx "
        "are proved to be exact moment matches for all mean, var > 0; add() stores "
        "(func_approx(mean, var), mean, var).",
        functions=["tsdate.prior._marginalize_over_ancestors", "conditional_coalescent_variance",
                   "ConditionalCoalescentTimes.tau_expect/tau_var_mrca/tau_var_exact/add",
                   "lognorm_approx", "gamma_approx"],
        bounds={"n": "2-12 quick, 2-40 thorough with a symbolic moment table; moments additionally at n = 64, 128, 180, 256 (more in thorough), all k", "mean/var": "all positive reals"},
        stubs=["numpy log/exp on concrete integers -> exact formal logarithms"],
        assumptions=["'exact' is read in real arithmetic; the float64 rounding error of the "
                     "log-space recursion is outside the claim"],
        out_of_scope=["n beyond the bound", "the interpolated (approximate) prior table"],
        validated=npx.validate(),
        expect_tags=["gamma", "lognorm"],
    )


def replay(payload):
    """Compiled code vs exact rational moments at the case's n."""
    from tsdate import prior
    kw = payload["case_kw"]
    if "n" not in kw:
        m, v = 3.0, 2.0
        a, b = prior.gamma_approx(m, v)
        al, be = prior.lognorm_approx(m, v)
        bad = abs(a / b - m) > 1e-12 or abs(a / b ** 2 - v) > 1e-12 or \
            abs(math.exp(al + be / 2) - m) > 1e-9 or \
            abs((math.exp(be) - 1) * math.exp(2 * al + be) - v) > 1e-9
        return bool(bad), "moment matching transforms"
    n = kw["n"]
    var = prior.conditional_coalescent_variance(n)
    rate = {i: Fraction(2, i * (i - 1)) for i in range(2, n + 1)}
    ET = {a: sum((rate[i] for i in range(a + 1, n + 1)), Fraction(0)) for a in range(1, n + 1)}
    VT = {a: sum((rate[i] ** 2 for i in range(a + 1, n + 1)), Fraction(0)) for a in range(1, n + 1)}
    bad = []
    for k in range(2, n + 1):
        if k == n:
            m1, m2 = ET[1], VT[1] + ET[1] ** 2
        else:
            m1 = sum(P(a, k, n) * ET[a] for a in range(2, n - k + 2))
            m2 = sum(P(a, k, n) * (VT[a] + ET[a] ** 2) for a in range(2, n - k + 2))
        if abs(prior.ConditionalCoalescentTimes.tau_expect(k, n) - float(m1)) > 1e-9:
            bad.append(("mean", k))
        if abs(var[k] - float(m2 - m1 ** 2)) > 1e-7 * float(m2 - m1 ** 2):
            bad.append(("var", k, float(var[k]), float(m2 - m1 ** 2)))
    return bool(bad), str(bad[:4])
