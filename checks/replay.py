"""Replay counterexample files against the real code (run WITHOUT NUMBA_DISABLE_JIT by the
driver, i.e. on the JIT-compiled production path).  One REPLAY-RESULT line per file."""
import importlib
import json
import sys
import traceback


def main():
    prop = sys.argv[1]
    mod = importlib.import_module("checks." + prop.lower())
    for path in sys.argv[2:]:
        with open(path) as f:
            payload = json.load(f)
        try:
            rep, info = mod.replay(payload)
        except Exception as e:  # a crash of the replay itself is not a verdict
            rep, info = None, "".join(traceback.format_exception(type(e), e, e.__traceback__))[-1500:]
        print("REPLAY-RESULT " + json.dumps({"path": path, "reproduced": rep, "info": str(info)[-1500:]}))
    return 0


if __name__ == "__main__":
    sys.exit(main())
