"""C21 - EP message bookkeeping: posterior = scale * sum(messages) after every update."""
from checks import common, ep_cases
from checks.common import Case


def cases(tier, which=("J",), prop="C21"):
    cs = []
    W = list(which)
    for cfg, order in (("chain", [0]), ("chain", [3]), ("hist", [2]), ("fixed_parent", [2]),
                       ("both_fixed", [0]), ("both_fixed", [1]), ("fixed_parent", [3])):
        cs.append(Case(f"lik:{cfg}:e{order[0]}", ep_cases.h_likelihood,
                       dict(config=cfg, order=order, which=W), weight=5,
                       shard_depth=6 if (cfg, order) == ("chain", [3]) else 0))
    cs.append(Case("lik:chain:e0:tiny", ep_cases.h_likelihood,
                   dict(config="chain", order=[0], tiny=True, which=W), weight=20))
    if tier == "thorough":
        cs.append(Case("lik:chain:e3:tiny", ep_cases.h_likelihood,
                       dict(config="chain", order=[3], tiny=True, which=W), weight=20,
                       shard_depth=7))
    if "J" in which:
        cs.append(Case("lik:chain:e0:from_zero", ep_cases.h_likelihood,
                       dict(config="chain", order=[0], init="zero", which=W), weight=2))
    for cfg, order in (("blocks", [0]), ("blocks", [1]), ("block_fixed", [0]),
                       ("block_fixed", [1])):
        cs.append(Case(f"blk:{cfg}:b{order[0]}", ep_cases.h_likelihood,
                       dict(config=cfg, order=order, unphased=True, which=W), weight=5,
                       shard_depth=6 if (cfg, order) == ("blocks", [0]) else 0))
    for cfg in ("chain", "hist", "fixed_parent"):
        cs.append(Case(f"prior:{cfg}", ep_cases.h_prior, dict(config=cfg, em_maxitt=1, which=W)))
    if "J" in which:
        for cfg in ("chain", "blocks", "block_fixed", "fixed_parent"):
            cs.append(Case(f"rescale_factors:{cfg}", ep_cases.h_rescale_factors, dict(config=cfg)))
    if tier == "thorough":
        cs.append(Case("lik:chain:e0,e1", ep_cases.h_likelihood,
                       dict(config="chain", order=[0, 1], which=W), weight=60, shard_depth=6))
        cs.append(Case("lik:hist:e2,e0", ep_cases.h_likelihood,
                       dict(config="hist", order=[2, 0], which=W), weight=60, shard_depth=6))
        # (two visits of the twin block: 2400 s exceeded / solver unknown - outside the bound)
        cs.append(Case("prior:chain:em2", ep_cases.h_prior,
                       dict(config="chain", em_maxitt=2, which=W), weight=10))
    return cs


def run(tier, seed, t0):
    from symx import npx
    cs = cases(tier)
    outs = common.run_cases(cs)
    return common.finish(
        "C21", tier, seed, t0, outs,
        explanation="Inductive step: the real ExpectationPropagation.propagate_likelihood (every "
        "update rule: fixed child, fixed parent, both fixed, free-free, twin block, unphased "
        "block, sideways), propagate_prior, _rescale_factors and _assemble_factors are executed "
        "from an ARBITRARY symbolic state (all messages and scales symbolic, posterior defined as "
        "scale x sum of messages), with the projection moments 'NaN or arbitrary reals'.  z3 "
        "proves on every path that the invariant posterior = scale x (prior + constraint + edge + "
        "block messages) and scale > 0 hold afterwards, that rows of fixed nodes are never "
        "written, and that _rescale_factors leaves posteriors unchanged with scale = 1.  By "
        "induction this covers any number of iterations and edges.",
        functions=["tsdate.variational.ExpectationPropagation.propagate_likelihood",
                   ".propagate_prior", "tsdate.variational._rescale_factors", "._assemble_factors",
                   "._damp", "._rescale", "tsdate.approx.*_projection", "approximate_gamma_mom",
                   "tsdate.approx.twin_moments"],
        bounds={"graphs": sorted(ep_cases.CONFIGS), "nodes": "<= 5",
                "updates_per_run": "1 (quick), 2 (thorough)", "em_maxitt": "1 (2 thorough)",
                "values": "all real messages, scales > 0, y >= 0, mu > 0, max_shape > 1, "
                          "0 < min_step < 1"},
        stubs=["approx.moments/rootward/leafward/unphased/sideways_moments -> NaN or fresh reals "
               "(superset of any implementation)", "math.log/exp/lgamma uninterpreted",
               "numpy via symx.npx"],
        assumptions=["pre-state satisfies the C05 invariant (alpha > -1, beta > 0 for free "
                     "nodes) - needed for _damp's assertions", "exact reals",
                     "scale >= TINY except in the dedicated ':tiny' case"],
        out_of_scope=["floating-point cancellation at the TINY threshold", "convergence"],
        validated=npx.validate(),
        expect_tags=["rule:fixed_child", "rule:fixed_parent", "rule:both_fixed", "rule:free_free",
                     "rule:twin", "unphased", "phased", "prior", "rescale_factors", "updated",
                     "skipped"],
    )


def replay(payload):
    """The invariant is an internal one: replay runs real EP iterations with check_valid on a
    family of real inputs (incl. unphased singletons and small max_shape) on the compiled code
    and re-sums the messages."""
    return _replay_real(payload)


def _replay_real(payload):
    import numpy as np
    import tsdate
    from tsdate import variational
    from symx import skeletons as SK
    bad = []
    for name, ts in (("diploid_two_tree", SK.diploid_two_tree()), ("bal4", SK.bal4()),
                     ("internal_sample", SK.internal_sample()),
                     ("random", SK.random_skeleton(3, n=6, length=30))):
        for phased in (True, False):
            if not phased and (ts.num_individuals == 0 or name == "random"):
                continue
            for max_shape in (1000, 20, 3, 1.5):
                for reg in (True, False):
                    try:
                        ep = variational.ExpectationPropagation(ts, mutation_rate=0.1,
                                                                singletons_phased=phased)
                        for _ in range(4):
                            ep.iterate(max_shape=max_shape, regularise=reg)
                            asm = variational._assemble_factors(ep.factors)
                            free = ep.node_constraints[:, 0] != ep.node_constraints[:, 1]
                            if not np.allclose(asm[free], ep.node_posterior[free], rtol=1e-8):
                                bad.append((name, phased, max_shape, reg))
                                break
                    except Exception as e:
                        bad.append((name, phased, max_shape, reg, repr(e)[:100]))
    return bool(bad), str(bad[:5])
