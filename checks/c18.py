"""C18 - EP moment updates: skip-or-valid wrappers, exact closed forms, and the moment algebra
against independently derived integral representations (special functions uninterpreted)."""
import math

import numpy as np

from checks import common, ep_h, c05
from checks.c06 import _patched_hyp
from checks.common import Case


def _nan(v):
    return isinstance(v, float) and v != v


def _eq(ctx, name, got, want):
    from symx.dom import Q
    ctx.prove(name, Q.of(got) == Q.of(want))


def _F(a, b, c, z):
    from symx.uf import uf
    return uf("hyp2f1", (a, b, c, z))


def _M(a, b, z):
    from symx.uf import uf
    return uf("hyp1f1", (a, b, z))


def _U(a, b, z):
    from symx.uf import uf
    return uf("hyperu_f", (a, b, z)), uf("hyperu_d", (a, b, z))


def _rising(x, k):
    """Pochhammer symbol (x)_k = Gamma(x + k) / Gamma(x), k >= 0 an integer"""
    from symx.dom import Q
    r = Q.of(1)
    for i in range(k):
        r = r * (x + i)
    return r


def h_closed(ctx, which):
    """cases with an elementary answer: exact equality with the answer written from the
    definition of the tilted distribution."""
    from symx.dom import sym, Q
    with ep_h.patched_ep() as (var, approx, npx), _patched_hyp():
        if which == "rootward_at_zero":
            a, b, y, mu = sym("a"), sym("b"), sym("y", "nonneg"), sym("mu", "pos")
            out = approx.rootward_moments(0.0, a, b, y, mu)
            if _nan(out[1]):
                ctx.prove("rootward0:skip_only_if_not_a_gamma", (a + y <= 0) | (mu + b <= 0))
                ctx.tag("skip")
                return
            # Gamma(a + y, mu + b)
            _eq(ctx, "rootward0:mean", out[1], (a + y) / (mu + b))
            _eq(ctx, "rootward0:variance", out[2], (a + y) / ((mu + b) * (mu + b)))
            ctx.prove("rootward0:mean>0", Q.of(out[1]) > 0)
            ctx.prove("rootward0:variance>0", Q.of(out[2]) > 0)
        elif which == "twin":
            a, b, y, mu = sym("a", "pos"), sym("b", "pos"), sym("y", "nonneg"), sym("mu", "pos")
            out = approx.twin_moments(a, b, y, mu)
            # t^(a-1+y) exp(-(b + 2 mu) t): Gamma(a + y, b + 2 mu)
            _eq(ctx, "twin:mean", out[1], (a + y) / (b + 2 * mu))
            _eq(ctx, "twin:variance", out[2], (a + y) / ((b + 2 * mu) * (b + 2 * mu)))
            pr, mn, va = approx.mutation_twin_moments(a, b, y, mu)
            # t_m | t_i uniform on (0, t_i), either parent with probability 1/2
            s, r = a + y, b + 2 * mu
            _eq(ctx, "mutation_twin:phase", pr, Q.of(1) / 2)
            _eq(ctx, "mutation_twin:mean", mn, s / r / 2)
            _eq(ctx, "mutation_twin:variance", va, s * (s + 1) / (3 * r * r) - (s / r / 2) * (s / r / 2))
            ctx.prove("mutation_twin:variance>0", Q.of(va) > 0)
        elif which == "edge":
            ti = sym("ti", "pos")
            tj = sym("tj", "nonneg")
            ctx.assume(ti > tj)
            mn, va = approx.mutation_edge_moments(ti, tj)
            # uniform on (tj, ti): moments from the antiderivatives
            e1 = (ti * ti - tj * tj) / (2 * (ti - tj))
            e2 = (ti * ti * ti - tj * tj * tj) / (3 * (ti - tj))
            _eq(ctx, "edge:mean", mn, e1)
            # the code writes 1/12 as a double: equal up to that literal's rounding
            d = Q.of(va) - (e2 - e1 * e1)
            lim = (ti - tj) * (ti - tj) / 10**15
            ctx.prove("edge:variance", (d <= lim) & (d >= -lim))
            ctx.prove("edge:mean_between_the_ends", (Q.of(mn) > tj) & (Q.of(mn) < ti))
            ctx.prove("edge:variance>0", Q.of(va) > 0)
        elif which == "block":
            ti, tj = sym("ti", "pos"), sym("tj", "pos")
            pr, mn, va = approx.mutation_block_moments(ti, tj)
            # with probability ti/(ti+tj) uniform on (0,ti), else uniform on (0,tj)
            _eq(ctx, "block:phase", pr, ti / (ti + tj))
            e1 = (ti * ti + tj * tj) / (2 * (ti + tj))
            e2 = (ti * ti * ti + tj * tj * tj) / (3 * (ti + tj))
            _eq(ctx, "block:mean", mn, e1)
            _eq(ctx, "block:variance", va, e2 - e1 * e1)
            ctx.prove("block:phase_in_(0,1)", (Q.of(pr) > 0) & (Q.of(pr) < 1))
            ctx.prove("block:mean_below_older_parent", (Q.of(mn) < ti) | (Q.of(mn) < tj))
            ctx.prove("block:variance>0", Q.of(va) > 0)
        elif which in ("mutation_rootward", "mutation_leafward"):
            t = sym("t", "pos")
            a, b, y, mu = sym("a"), sym("b"), sym("y", "nonneg"), sym("mu", "pos")
            node = approx.rootward_moments if which == "mutation_rootward" else approx.leafward_moments
            f = getattr(approx, which + "_moments")
            try:
                _, m1, v1 = node(t, a, b, y, mu)
                mn, va = f(t, a, b, y, mu)
            except AssertionError:
                ctx.tag("assert")
                return
            if _nan(m1):
                ctx.prove(f"{which}:skip_together", _nan(mn) and _nan(va))
                ctx.tag("skip")
                return
            # t_m | t_i uniform between the fixed end t and the free end x:
            # E = E[(x + t)/2], E2 = E[(x^2 + x t + t^2)/3]
            e1 = (Q.of(m1) + t) / 2
            e2 = (Q.of(v1) + Q.of(m1) * m1 + Q.of(m1) * t + t * t) / 3
            _eq(ctx, f"{which}:mean", mn, e1)
            _eq(ctx, f"{which}:variance", va, e2 - e1 * e1)
            from symx.dom import Implies
            if which == "mutation_rootward":
                ctx.prove(f"{which}:mean_between_child_and_parent_mean",
                          Implies(Q.of(m1) > t, (Q.of(mn) > t) & (Q.of(mn) < Q.of(m1))))
            else:
                ctx.prove(f"{which}:mean_between_child_mean_and_parent",
                          Implies(Q.of(m1) < t, (Q.of(mn) < t) & (Q.of(mn) > Q.of(m1))))
    ctx.tag("closed")


def h_algebra(ctx, which):
    """moment formulas against ratios of normalising integrals (derived in the harness from the
    Beta / Tricomi integral representations; tools/check_identities.py checks the references
    against quadrature).  log F, log M, log U are uninterpreted functions of their arguments."""
    from symx.dom import sym, Q
    ex = ep_h.uf_exp
    with ep_h.patched_ep() as (var, approx, npx), _patched_hyp():
        ai, bi, aj, bj = sym("ai"), sym("bi"), sym("aj"), sym("bj")
        y, mu = sym("y", "nonneg"), sym("mu", "pos")
        try:
            if which in ("moments", "unphased_moments", "mutation_moments",
                         "mutation_unphased_moments"):
                out = getattr(approx, which)(ai, bi, aj, bj, y, mu)
            elif which == "mutation_sideways_moments":
                ti = sym("ti", "pos")
                out = approx.mutation_sideways_moments(ti, aj, bj, y, mu)
            elif which == "leafward_moments":
                ti = sym("ti", "pos")
                out = approx.leafward_moments(ti, aj, bj, y, mu)
            elif which == "rootward_moments":
                tj = sym("tj", "pos")
                out = approx.rootward_moments(tj, ai, bi, y, mu)
            elif which == "sideways_moments":
                ti = sym("ti", "pos")
                out = approx.sideways_moments(ti, aj, bj, y, mu)
        except AssertionError:
            ctx.tag("assert")
            return
        except Exception as e:
            ctx.fail("no-exception", detail={"exception": repr(e)[:300]})
            return
    if _nan(out[1]):
        ctx.tag("skip")
        return
    if which == "mutation_moments":
        # t_m | t_i, t_j uniform on (t_j, t_i) under the `moments` density:
        # E[t_i^p t_j^q] = Z(a_i + p, a_j + q) / Z with
        # Z = B(a_j, y+1) Gamma(b) t^-b 2F1(a_j, b; a_j + y + 1; z),  b = a_i + a_j + y
        a, b, c, t = aj, ai + aj + y, aj + y + 1, mu + bi
        z = (mu - bj) / t

        def E(p, q):
            return _rising(a, q) / _rising(c, q) * _rising(b, p + q) / t ** (p + q) * \
                ex(_F(a + q, b + p + q, c + q, z) - _F(a, b, c, z))
        r1 = ex(_F(a + 1, b + 1, c + 1, z) - _F(a, b, c, z))
        mnj = a * b / c / t * r1
        mni = b / t + z * mnj           # contiguous relation, as for `moments`
        e1 = (mni + mnj) / 2
        e2 = (E(2, 0) + E(1, 1) + E(0, 2)) / 3
        _eq(ctx, "mutation_moments:E[t_m]", out[0], e1)
        _eq(ctx, "mutation_moments:V[t_m]", out[1], e2 - e1 * e1)
        ctx.tag("algebra")
        return
    if which == "mutation_unphased_moments":
        # density (t_i + t_j)^y ...: dividing by (t_i + t_j) lowers y by one;
        # Z_y(a_i, a_j) = B(a_j, a_i) Gamma(b) t^-b 2F1(a_j, b; a_i + a_j; 1 - z)
        a, b, c, t = aj, ai + aj + y, ai + aj, mu + bi
        w = 1 - (mu + bj) / t

        def R(di, dj):      # Z_{y-1}(a_i + di, a_j + dj) / Z_y(a_i, a_j)
            k = di + dj - 1
            return _rising(a, dj) * _rising(c - a, di) / _rising(c, di + dj) * _rising(b, k) / t ** k * \
                ex(_F(a + dj, b + k, c + di + dj, w) - _F(a, b, c, w))
        pr = R(1, 0)
        e1 = (R(2, 0) + R(0, 2)) / 2
        e2 = (R(3, 0) + R(0, 3)) / 3
        _eq(ctx, "mutation_unphased:P[under i]", out[0], pr)
        _eq(ctx, "mutation_unphased:E[t_m]", out[1], e1)
        _eq(ctx, "mutation_unphased:V[t_m]", out[2], e2 - e1 * e1)
        ctx.tag("algebra")
        return
    if which == "mutation_sideways_moments":
        # t_j = t_i u, u^(a-1) (1+u)^y exp(-z u): Z_y(a) = t_i^(a+y) Gamma(a) U(a, a+y+1, z) e^(-mu t_i)
        a, b, z = aj, aj + y + 1, ti * (mu + bj)

        def Ru(k):          # Z_{y-1}(a + k) / Z_y(a) / t_i^(k-1)
            return _rising(a, k) * ex(_U(a + k, b + k - 1, z)[0] - _U(a, b, z)[0])
        pr = 1 - Ru(1)
        e1 = pr * ti / 2 + ti * Ru(2) / 2
        e2 = pr * ti * ti / 3 + ti * ti * Ru(3) / 3
        _eq(ctx, "mutation_sideways:P[under i]", out[0], pr)
        _eq(ctx, "mutation_sideways:E[t_m]", out[1], e1)
        _eq(ctx, "mutation_sideways:V[t_m]", out[2], e2 - e1 * e1)
        ctx.tag("algebra")
        return
    if which in ("moments", "unphased_moments"):
        a, b, t = aj, ai + aj + y, mu + bi
        if which == "moments":
            c, z, sgn = aj + y + 1, (mu - bj) / t, 1
            w = z
        else:
            c, z, sgn = ai + aj, (mu + bj) / t, -1
            w = 1 - z
        r1 = ex(_F(a + 1, b + 1, c + 1, w) - _F(a, b, c, w))
        r2 = ex(_F(a + 2, b + 2, c + 2, w) - _F(a, b, c, w))
        mnj = a * b / c / t * r1                                    # Z(a_j + 1) / Z
        sqj = a * (a + 1) * b * (b + 1) / (c * (c + 1)) / (t * t) * r2   # Z(a_j + 2) / Z
        mni = b / t + sgn * z * mnj                                 # total-time identity
        sqi = b * (b + 1) / (t * t) * (1 + sgn * 2 * a * z / c * r1
                                       + a * (a + 1) * z * z / (c * (c + 1)) * r2)
        _eq(ctx, f"{which}:E[t_j]", out[3], mnj)
        _eq(ctx, f"{which}:V[t_j]", out[4], sqj - mnj * mnj)
        _eq(ctx, f"{which}:E[t_i]", out[1], mni)
        _eq(ctx, f"{which}:V[t_i]", out[2], sqi - mni * mni)
    elif which == "leafward_moments":
        a, b, z = aj, aj + y + 1, ti * (mu - bj)
        r1 = ex(_M(a + 1, b + 1, z) - _M(a, b, z))
        r2 = ex(_M(a + 2, b + 2, z) - _M(a, b, z))
        mnj = ti * a / b * r1
        sqj = ti * ti * a * (a + 1) / (b * (b + 1)) * r2
        _eq(ctx, "leafward:E[t_j]", out[1], mnj)
        _eq(ctx, "leafward:V[t_j]", out[2], sqj - mnj * mnj)
    elif which == "rootward_moments":
        # t_i = t_j (1 + u), u ~ u^y (1+u)^(a_i-1) exp(-z u): E[u] = -dlogU/dz, V[u] = d2logU/dz2,
        # and U'(a,b,z) = -a U(a+1,b+1,z) gives d2logU/dz2 = d0 (d1 - d0)
        a, b, z = y + 1, ai + y + 1, tj * (mu + bi)
        _, d0 = _U(a, b, z)
        _, d1 = _U(a + 1, b + 1, z)
        _eq(ctx, "rootward:E[t_i]", out[1], tj * (1 - d0))
        _eq(ctx, "rootward:V[t_i]", out[2], tj * tj * d0 * (d1 - d0))
        from symx.dom import Implies
        ctx.prove("rootward:parent_mean_above_fixed_child_if_dlogU<0", Implies(d0 < 0, Q.of(out[1]) > tj))
        ctx.prove("rootward:parent_mean_above_fixed_child_only_if_dlogU<0", Implies(Q.of(out[1]) > tj, d0 < 0))
    elif which == "sideways_moments":
        a, b, z = aj, aj + y + 1, ti * (mu + bj)
        _, d0 = _U(a, b, z)
        _, d1 = _U(a + 1, b + 1, z)
        _eq(ctx, "sideways:E[t_j]", out[1], -ti * d0)
        _eq(ctx, "sideways:V[t_j]", out[2], ti * ti * d0 * (d1 - d0))
    ctx.tag("algebra")


def cases(tier):
    cs = []
    for nm in list(c05.NODE_WRAPPERS) + list(c05.MUT_WRAPPERS):
        cs.append(Case(f"wrapper:{nm}", c05.h_wrapper, dict(name=nm)))
    for w in ("rootward_at_zero", "twin", "edge", "block", "mutation_rootward", "mutation_leafward"):
        cs.append(Case(f"closed:{w}", h_closed, dict(which=w)))
    for w in ("moments", "unphased_moments", "leafward_moments", "rootward_moments",
              "sideways_moments", "mutation_moments", "mutation_unphased_moments",
              "mutation_sideways_moments"):
        cs.append(Case(f"algebra:{w}", h_algebra, dict(which=w), weight=20))
    return cs


def run(tier, seed, t0):
    from symx import npx
    cs = cases(tier)
    outs = common.run_cases(cs)
    return common.finish(
        "C18", tier, seed, t0, outs,
        explanation="(1) every approx.*_projection wrapper is executed with its moment function "
        "'NaN or arbitrary reals': it either returns the documented skip value or natural "
        "parameters of a proper gamma with positive mean and variance, and phase probabilities in "
        "[0, 1].  (2) The cases with elementary answers (child at time zero, twin blocks, uniform "
        "mutation on an edge / block with fixed ends, mutation between a fixed end and a free end) "
        "are proved exactly equal to the answer written from the definition, with their support "
        "facts (mean between the ends, variance > 0).  (3) moments, unphased_moments, "
        "leafward_moments, rootward_moments, sideways_moments, mutation_moments, "
        "mutation_unphased_moments, mutation_sideways_moments are proved equal to ratios of "
        "normalising integrals derived independently in the harness (Beta / Tricomi integral "
        "representations, one contiguous relation; validated against quadrature by "
        "tools/check_identities.py) with log 2F1, log 1F1, log U and their derivative "
        "uninterpreted, so any algebra slip in the formulas - which the repository's own 'exact' "
        "oracle would share - is a counterexample.",
        functions=["tsdate.approx.*_projection (14)", "tsdate.approx.moments/rootward_moments/"
                   "leafward_moments/unphased_moments/twin_moments/sideways_moments",
                   "tsdate.approx.mutation_rootward_moments/mutation_leafward_moments/"
                   "mutation_twin_moments/mutation_edge_moments/mutation_block_moments",
                   "tsdate.approx._valid_moments/_valid_gamma/_valid_hyp2f1/_valid_hyp1f1/_valid_hyperu"],
        bounds={"arguments": "all real cavity parameters, counts >= 0, spans > 0, fixed ages > 0 "
                             "(scalar kernels, no loops)"},
        stubs=["hypergeo._hyp2f1_laplace/_hyp1f1_laplace/_hyperu_laplace/_betaln, math.exp/log/lgamma "
               "uninterpreted", "moment functions 'NaN or arbitrary' inside the wrapper harness"],
        assumptions=["exact reals", "Gauss contiguous relation F(a,b+1;c;z) = F(a,b;c;z) + (az/c) "
                     "F(a+1,b+1;c+1;z) and U'(a,b,z) = -a U(a+1,b+1,z) (textbook identities, checked "
                     "numerically once)"],
        out_of_scope=["agreement of the Laplace approximations with numerical integration 'to within "
                      "a few percent' and support facts that need the value of a transcendental "
                      "ratio (no SMT theory; used only as the replay oracle)",
                      ],
        validated=npx.validate(),
        expect_tags=["skip", "valid", "closed", "algebra"],
    )


def _grid():
    shapes = [0.05, 0.12, 0.2, 0.6, 1.0, 2.5, 9.0, 60.0]
    rates = [1e-3, 0.4, 3.0, 200.0]
    return shapes, rates


def replay(payload):
    """Real (compiled) projections on a wide grid incl. nearly flat cavities: skip-or-valid,
    phases in [0,1]; node means against 1-D/2-D quadrature where the tilted density is proper."""
    from scipy import integrate
    from tsdate import approx
    bad = []
    shapes, rates = _grid()
    case = payload["case"]
    name = case.split(":", 1)[1] if case.startswith("wrapper:") else None
    names = [name] if name else list(c05.NODE_WRAPPERS) + list(c05.MUT_WRAPPERS)
    for nm in names:
        node = nm in c05.NODE_WRAPPERS
        kinds = (c05.NODE_WRAPPERS if node else c05.MUT_WRAPPERS)[nm][1]
        f = getattr(approx, nm)
        for a1 in shapes:
            for b1 in rates:
                for a2 in shapes[::2]:
                    for y, mu in ((0.0, 0.5), (1.0, 0.01), (3.0, 2.0), (40.0, 1.0)):
                        p1 = np.array([a1 - 1, b1])
                        p2 = np.array([a2 - 1, b1 * 1.7])
                        lik = np.array([y, mu])
                        t = 0.5 * a1 / b1 + 0.1
                        if kinds == "pp":
                            args = (p1, p2, lik)
                        elif kinds == "tp":
                            args = (t, p2, lik)
                        elif kinds == "p":
                            args = (p1, lik)
                        else:
                            args = (t * 2, t)
                        try:
                            res = f(*args)
                        except approx.KLMinimizationFailedError as e:
                            bad.append((nm, "raised", repr(e)[:60], a1, b1, a2, y, mu))
                            continue
                        except AssertionError:
                            continue
                        head, outs = res[0], res[1:]
                        if isinstance(head, float) and head != head:
                            continue
                        for o in outs:
                            if not (o[0] > -1 and o[1] > 0 and np.all(np.isfinite(o))):
                                bad.append((nm, "improper", o.tolist(), a1, b1, a2, y, mu))
                        if not node and not (0 <= head <= 1):
                            bad.append((nm, "phase", float(head), a1, b1, a2, y, mu))
    # closed forms / algebra: compare the moment functions with quadrature where proper
    if case.startswith(("closed", "algebra")) or not bad:
        for ai, bi, aj, bj, y, mu in ((2.0, 1.0, 1.5, 0.5, 2.0, 0.7), (4.0, 0.3, 2.5, 1.2, 0.0, 1.5),
                                     (1.3, 2.0, 3.0, 0.4, 5.0, 0.2)):
            dens = lambda tj, ti: (ti - tj) ** y * np.exp(-mu * (ti - tj)) * ti ** (ai - 1) * \
                np.exp(-bi * ti) * tj ** (aj - 1) * np.exp(-bj * tj)
            Z = integrate.dblquad(dens, 0, np.inf, 0, lambda ti: ti)[0]
            Ei = integrate.dblquad(lambda tj, ti: ti * dens(tj, ti), 0, np.inf, 0, lambda ti: ti)[0] / Z
            Ej = integrate.dblquad(lambda tj, ti: tj * dens(tj, ti), 0, np.inf, 0, lambda ti: ti)[0] / Z
            out = approx.moments(ai, bi, aj, bj, y, mu)
            if not (abs(out[1] / Ei - 1) < 0.05 and abs(out[3] / Ej - 1) < 0.05):
                bad.append(("moments vs quadrature", out[1], Ei, out[3], Ej))
            tfix = 1.3
            d1 = lambda s: (s - tfix) ** y * np.exp(-mu * (s - tfix)) * s ** (ai - 1) * np.exp(-bi * s)
            Z1 = integrate.quad(d1, tfix, np.inf)[0]
            E1 = integrate.quad(lambda s: s * d1(s), tfix, np.inf)[0] / Z1
            out = approx.rootward_moments(tfix, ai, bi, y, mu)
            if not abs(out[1] / E1 - 1) < 0.05:
                bad.append(("rootward vs quadrature", out[1], E1))
            out0 = approx.rootward_moments(0.0, ai, bi, y, mu)
            if not (abs(out0[1] - (ai + y) / (mu + bi)) < 1e-12 * out0[1]):
                bad.append(("rootward at zero", out0[1]))
            d2 = lambda s: (tfix - s) ** y * np.exp(-mu * (tfix - s)) * s ** (aj - 1) * np.exp(-bj * s)
            Z2 = integrate.quad(d2, 0, tfix)[0]
            E2 = integrate.quad(lambda s: s * d2(s), 0, tfix)[0] / Z2
            out = approx.leafward_moments(tfix, aj, bj, y, mu)
            if not abs(out[1] / E2 - 1) < 0.05:
                bad.append(("leafward vs quadrature", out[1], E2))
            tw = approx.twin_moments(ai, bi, y, mu)
            if not abs(tw[1] - (ai + y) / (bi + 2 * mu)) < 1e-12 * tw[1]:
                bad.append(("twin", tw[1]))
            me = approx.mutation_edge_moments(2.0, 0.5)
            if not (abs(me[0] - 1.25) < 1e-12 and abs(me[1] - 1.5 ** 2 / 12) < 1e-12):
                bad.append(("edge", me))
            mb = approx.mutation_block_moments(2.0, 0.5)
            if not (abs(mb[0] - 0.8) < 1e-12 and abs(mb[1] - (4.25 / 5.0)) < 1e-12):
                bad.append(("block", mb))
    return bool(bad), str(bad[:4])
