"""Recording stand-ins for a tskit table + metadata schema, for the metadata-policy harnesses
(C04, C32).  The stub abstracts tskit's codecs to 'can encode mn/vr' / 'cannot'."""
import tskit


class Schema:
    def __init__(self, kind, log, name="schema"):
        # kind: None (no schema), "permissive", "restrictive" (rejects unknown keys mn/vr),
        #       "struct_bad" (raises MetadataEncodingError)
        self.kind = kind
        self.schema = None if kind is None else {"codec": "stub", "kind": kind}
        if kind == "time_only":
            # a JSON schema that declares just the two time fields (as tsdate's own default
            # does) and - like any JSON schema - still allows undeclared properties
            self.schema = {"codec": "json", "type": "object",
                           "properties": {"mn": {"type": "number"}, "vr": {"type": "number"}}}
        self.log = log
        self.name = name

    def validate_and_encode_row(self, d):
        if self.kind == "restrictive":
            raise tskit.MetadataValidationError("additional properties not allowed: mn, vr")
        if self.kind == "struct_bad":
            raise tskit.MetadataEncodingError("struct codec cannot encode mn")
        if self.kind is None:
            raise tskit.MetadataEncodingError("no schema")
        return ("ENC", self.name, tuple(sorted(d.items(), key=lambda kv: kv[0])))


class Row:
    def __init__(self, md):
        self.metadata = md


class Table:
    """Records every mutation of the table: schema assignments, drop_metadata, packset."""

    def __init__(self, schema_kind, existing, log, nrows):
        # existing: None (no metadata bytes) or list of dicts (decoded rows)
        self.log = log
        self._schema = Schema(schema_kind, log, "own")
        self._existing = existing
        self.num_rows = nrows
        self.packed = None

    @property
    def metadata(self):
        if self.packed is not None:
            return b"x" * max(1, self.num_rows)
        return b"" if not self._existing else b"x" * (3 * self.num_rows)

    @property
    def metadata_schema(self):
        return self._schema

    @metadata_schema.setter
    def metadata_schema(self, s):
        self.log.append(("set_schema", s))
        self._schema = s

    def __iter__(self):
        for d in (self._existing or [{} for _ in range(self.num_rows)]):
            yield Row(dict(d))

    def drop_metadata(self):
        self.log.append(("drop_metadata", None))
        self._existing = None
        self._schema = Schema(None, self.log, "dropped")

    def packset_metadata(self, rows):
        self.log.append(("packset", list(rows)))
        self.packed = list(rows)


def written_rows(table):
    """list of dicts written by the last packset, or None"""
    if table.packed is None:
        return None
    return [dict(r[2]) for r in table.packed]
