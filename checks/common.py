"""Shared driver for the per-property checks: runs harness cases in worker processes,
aggregates solver verdicts, replays counterexamples, applies known findings, writes
evidence, returns the exit code (0 ok / 1 violation / 3 inconclusive-or-harness-error).
"""
import hashlib
import json
import multiprocessing as mp
import os
import re
import subprocess
import sys
import time
import traceback
from fractions import Fraction

VERIF = os.path.dirname(os.path.dirname(os.path.abspath(__file__)))
REPO = os.environ.get("VERIF_REPO", "/repo")
EVIDENCE_DIR = os.environ.get("VERIF_EVIDENCE_DIR") or os.path.join(VERIF, "evidence")
REPLAY_DIR = os.path.join(VERIF, "replays")
KNOWN = os.path.join(VERIF, "known_findings.json")

_REGISTRY = {}   # case name -> Case (filled in the parent before forking)


class Case:
    def __init__(self, name, harness, kw=None, expect_tags=(), bounds=None, weight=1,
                 shard_depth=0):
        self.shard_depth = shard_depth   # 2^depth workers share this case's path space
        self.shard = None
        self.name = name
        self.harness = harness
        self.kw = kw or {}
        self.expect_tags = tuple(expect_tags)   # branch tags that must be reached (vacuity guard)
        self.bounds = bounds or {}
        self.weight = weight


def _jsonable(v):
    if isinstance(v, Fraction):
        return {"frac": [str(v.numerator), str(v.denominator)], "float": float(v)}
    if isinstance(v, dict):
        return {str(k): _jsonable(x) for k, x in v.items()}
    if isinstance(v, (list, tuple)):
        return [_jsonable(x) for x in v]
    if isinstance(v, (int, float, str, bool)) or v is None:
        return v
    return str(v)


def _spool_path(name):
    d = os.path.join(VERIF, "work", "spool")
    os.makedirs(d, exist_ok=True)
    return os.path.join(d, "%d-%s.jsonl" % (os.getppid(), hashlib.sha1(name.encode()).hexdigest()[:12]))


class _SpoolList(list):
    """Obligation results; counterexamples are also appended to a spool file as they are found,
    so that a case killed for exceeding its budget still hands over what it had found."""

    def __init__(self, path):
        super().__init__()
        self._path, self._n = path, 0
        try:
            os.unlink(path)
        except OSError:
            pass

    def append(self, r):
        super().append(r)
        if r.status == "sat" and self._n < 20:
            self._n += 1
            with open(self._path, "a") as f:
                f.write(json.dumps({"obligation": r.name, "status": r.status,
                                    "model": _jsonable(r.model),
                                    "detail": _jsonable(r.detail)}) + "\n")


def _read_spool(name, ppid):
    p = os.path.join(VERIF, "work", "spool",
                     "%d-%s.jsonl" % (ppid, hashlib.sha1(name.encode()).hexdigest()[:12]))
    out = []
    try:
        with open(p) as f:
            for ln in f:
                try:
                    out.append(json.loads(ln))
                except ValueError:
                    pass
        os.unlink(p)
    except OSError:
        pass
    return out


def _run_case(name):
    """Worker: explore one case, return a picklable summary."""
    from symx.ctx import Ctx, explore
    case = _REGISTRY[name]
    t0 = time.time()
    out = {"name": name, "error": None, "kw": _jsonable(case.kw)}
    try:
        kw = dict(case.kw)
        kw.pop("case_timeout_s", None)
        ckw = {k: kw.pop(k) for k in ("qtimeout_ms", "max_paths", "max_decisions", "div0")
               if k in kw}
        if case.shard is not None:
            ckw["shard"] = case.shard
        cx = Ctx(**ckw)
        cx.results = _SpoolList(_spool_path(name))
        h = case.harness
        explore((lambda c: h(c, **kw)) if kw else h, cx)
        by = {}
        bad = []
        for r in cx.results:
            k = by.setdefault(r.name, {"unsat": 0, "sat": 0, "unknown": 0})
            k[r.status] += 1
            if r.status != "unsat" and len(bad) < 20:
                bad.append({"obligation": r.name, "status": r.status,
                            "model": _jsonable(r.model), "detail": _jsonable(r.detail)})
        out.update(stats=cx.stats.as_dict(), obligations=by, bad=bad,
                   samples=_jsonable(cx.samples), exhausted=bool(cx.exhausted),
                   tags=dict(cx.tags),
                   events=[(k, str(t)[:300]) for _, k, t in cx.events][:20])
    except BaseException as e:  # harness error, including unexpected PathAbort leaks
        out["error"] = "".join(traceback.format_exception(type(e), e, e.__traceback__))[-3000:]
    out["wall_s"] = round(time.time() - t0, 3)
    try:
        os.unlink(_spool_path(name))
    except OSError:
        pass
    return out


def run_cases(cases, workers=None, timeout_s=None):
    """Run cases in forked workers (largest first)."""
    _REGISTRY.clear()
    expanded = []
    for c in cases:
        if c.shard_depth:
            for i in range(1 << c.shard_depth):
                s = Case(f"{c.name}#s{i}/{1 << c.shard_depth}", c.harness, c.kw, c.expect_tags,
                         c.bounds, c.weight)
                s.shard = (i, c.shard_depth)
                expanded.append(s)
        else:
            expanded.append(c)
    cases = expanded
    for c in cases:
        if c.name in _REGISTRY:
            raise RuntimeError(f"duplicate case name {c.name}")
        _REGISTRY[c.name] = c
    names = [c.name for c in sorted(cases, key=lambda c: -c.weight)]
    # import the code under analysis once, before forking (children inherit it)
    from symx import load
    load.tsdate_module("")
    import z3  # noqa: F401
    workers = workers or min(len(names), int(os.environ.get("VERIF_WORKERS", "16"))) or 1
    tier = os.environ.get("VERIF_TIER_ACTIVE", "quick")
    default_to = timeout_s or float(os.environ.get(
        "VERIF_CASE_TIMEOUT", "420" if tier == "quick" else "2400"))
    ctx = mp.get_context("fork")
    pending = list(names)
    results = {}

    class W:
        def __init__(self):
            self.task_r, self.task_w = ctx.Pipe(duplex=False)
            self.res_r, self.res_w = ctx.Pipe(duplex=False)
            self.proc = ctx.Process(target=_worker_loop, args=(self.task_r, self.res_w),
                                    daemon=True)
            self.proc.start()
            self.task_r.close()
            self.res_w.close()
            self.name = None
            self.t0 = 0.0
            self.lim = 0.0

        def give(self, n):
            self.name, self.t0 = n, time.time()
            self.lim = _REGISTRY[n].kw.get("case_timeout_s", default_to)
            self.task_w.send(n)

        def stop(self):
            try:
                self.task_w.send(None)
            except Exception:
                pass
            self.proc.join(timeout=2)
            if self.proc.is_alive():
                self.proc.kill()

    pool = [W() for _ in range(workers)]
    try:
        while pending or any(w.name for w in pool):
            for i, w in enumerate(pool):
                if w.name is None:
                    if pending:
                        w.give(pending.pop(0))
                    continue
                if w.res_r.poll():
                    try:
                        results[w.name] = w.res_r.recv()
                    except EOFError:
                        results[w.name] = {"name": w.name, "kw": None,
                                           "error": "worker died without a result",
                                           "wall_s": time.time() - w.t0}
                        w.proc.kill()
                        pool[i] = W()
                        continue
                    w.name = None
                elif not w.proc.is_alive():
                    results[w.name] = {"name": w.name, "kw": None, "wall_s": time.time() - w.t0,
                                       "error": f"worker exited with code {w.proc.exitcode}"}
                    pool[i] = W()
                elif time.time() - w.t0 > w.lim:
                    w.proc.kill()
                    w.proc.join(timeout=5)
                    results[w.name] = {
                        "name": w.name, "kw": _jsonable(_REGISTRY[w.name].kw),
                        "error": f"case exceeded its {w.lim:.0f}s budget (solver or term growth "
                                 f"did not finish): inconclusive", "wall_s": w.lim,
                        "bad": _read_spool(w.name, os.getpid())}
                    pool[i] = W()
            time.sleep(0.02)
    finally:
        for w in pool:
            w.stop()
    return [results[n] for n in names]


def _worker_loop(task_r, res_w):
    while True:
        try:
            n = task_r.recv()
        except EOFError:
            return
        if n is None:
            return
        try:
            out = _run_case(n)
        except BaseException as e:   # noqa
            out = {"name": n, "error": repr(e), "wall_s": 0, "kw": None}
        res_w.send(out)


def _case_proc(name, conn):
    try:
        out = _run_case(name)
    except BaseException as e:   # noqa
        out = {"name": name, "error": repr(e), "wall_s": 0, "kw": None}
    try:
        conn.send(out)
    finally:
        conn.close()


def load_known(prop):
    if not os.path.exists(KNOWN):
        return []
    with open(KNOWN) as f:
        data = json.load(f)
    return [e for e in data.get("findings", []) if e.get("property") == prop]


def match_known(known, case, obligation):
    case = case.split("#s")[0]
    for e in known:
        if re.fullmatch(e.get("case", ".*"), case) and \
                re.fullmatch(e.get("obligation", ".*"), obligation):
            return e
    return None


def write_replay(prop, payload):
    os.makedirs(REPLAY_DIR, exist_ok=True)
    blob = json.dumps(payload, sort_keys=True, indent=1)
    h = hashlib.sha1(blob.encode()).hexdigest()[:10]
    path = os.path.join(REPLAY_DIR, f"{prop}-{h}.json")
    with open(path, "w") as f:
        f.write(blob)
    return path


def replay_files(prop, paths, timeout=1800, jit=True):
    """Replay counterexample files against the real code in ONE fresh process (JIT-compiled
    unless jit=False).  Returns {path: (True|False|None, text)}."""
    if not paths:
        return {}
    env = dict(os.environ)
    if jit:
        env.pop("NUMBA_DISABLE_JIT", None)
    else:
        env["NUMBA_DISABLE_JIT"] = "1"
    env["PYTHONPATH"] = VERIF + os.pathsep + REPO
    env["TSDATE_VERIF"] = "1"
    try:
        p = subprocess.run([sys.executable, "-m", "checks.replay", prop] + list(paths),
                           cwd=VERIF, env=env, capture_output=True, text=True,
                           timeout=timeout)
    except subprocess.TimeoutExpired:
        return {q: (None, "replay timed out") for q in paths}
    res = {}
    for ln in p.stdout.splitlines():
        if ln.startswith("REPLAY-RESULT "):
            d = json.loads(ln[len("REPLAY-RESULT "):])
            res[d["path"]] = (d["reproduced"], d.get("info", ""))
    for q in paths:
        res.setdefault(q, (None, (p.stdout + p.stderr)[-2000:]))
    return res


def finish(prop, tier, seed, t0, outs, *, level="other", explanation, functions,
           bounds, stubs, assumptions, out_of_scope, replay=True, replay_jit=True, extra_cov=None,
           validated=0, expect_tags=None):
    """Aggregate case outputs into verdict + evidence.  Returns exit code."""
    known = load_known(prop)
    tot = {"queries": 0, "solver_s": 0.0, "unknown": 0, "paths": 0, "feasible_paths": 0,
           "obligations": 0, "discharged": 0, "max_terms": 0}
    errors, inconclusive, violations, known_hits = [], [], [], []
    samples, per_case, tags = [], {}, {}
    exhausted = True
    case_kw = {o["name"]: o.get("kw") for o in outs}
    for o in outs:
        if o.get("error"):
            errors.append((o["name"], o["error"]))
            # counterexamples found before a budget kill are still replayed and reported
            for b in o.get("bad") or []:
                violations.append((o["name"], b))
            continue
        for k in tot:
            if k == "max_terms":
                tot[k] = max(tot[k], o["stats"][k])
            else:
                tot[k] += o["stats"][k]
        exhausted = exhausted and o["exhausted"]
        if not o["exhausted"]:
            inconclusive.append((o["name"], "path space not exhausted: " + str(o["events"][:2])))
        for ev in o["events"]:
            if ev[0] in ("unknown-path",):
                pass
        for t, n in o["tags"].items():
            tags[t] = tags.get(t, 0) + n
        per_case[o["name"]] = {"paths": o["stats"]["paths"],
                               "feasible": o["stats"]["feasible_paths"],
                               "obligations": o["stats"]["obligations"],
                               "discharged": o["stats"]["discharged"],
                               "queries": o["stats"]["queries"],
                               "solver_s": o["stats"]["solver_s"],
                               "wall_s": o["wall_s"]}
        if o["samples"] and len(samples) < 4:
            s = dict(o["samples"][0])
            s["case"] = o["name"]
            s["obligation_names"] = sorted(o["obligations"])[:12]
            samples.append(s)
        for b in o["bad"]:
            if b["status"] == "unknown":
                inconclusive.append((o["name"], f"solver unknown on {b['obligation']}"))
            else:
                violations.append((o["name"], b))
    # vacuity guard: every expected branch tag must have been reached on a feasible path
    for t in (expect_tags or ()):
        if not tags.get(t):
            errors.append(("vacuity", f"expected branch tag '{t}' was never reached"))
    if tot["feasible_paths"] < 2 and not errors:
        errors.append(("vacuity", "fewer than 2 feasible paths explored"))

    reported = []
    lines = []
    seen_known = set()
    # replay (at most 3 candidates per (case, obligation)), all in one fresh process
    todo = []
    count = {}
    unreplayed = []
    # groups that no known finding explains are replayed first (never starved by the cap)
    violations.sort(key=lambda cb: match_known(known, cb[0], cb[1]["obligation"]) is not None)
    known_groups = {}      # finding id -> groups chosen for replay
    skipped_known = []
    for case, b in violations:
        k = (case, b["obligation"])
        count[k] = count.get(k, 0) + 1
        if count[k] > 3:
            continue
        e = match_known(known, case, b["obligation"])
        if e is not None:
            # a known finding is re-confirmed on at most 2 groups per run; further groups
            # that it explains are listed, not replayed
            g = known_groups.setdefault(e.get("id", e.get("what")), [])
            if k not in g:
                if len(g) >= 2:
                    if k not in skipped_known:
                        skipped_known.append(k)
                    continue
                g.append(k)
        else:
            n_unknown = len({kk for kk in count if match_known(known, kk[0], kk[1]) is None})
            if count[k] == 1 and n_unknown > 12:
                unreplayed.append(k)
                continue
            if k in unreplayed:
                continue
        payload = {"property": prop, "case": case, "case_kw": case_kw.get(case),
                   "obligation": b["obligation"], "model": b["model"], "detail": b["detail"]}
        todo.append((case, b, write_replay(prop, payload)))
    rres = replay_files(prop, [t[2] for t in todo], jit=replay_jit) if replay else \
        {t[2]: (None, "no replayer") for t in todo}
    groups = {}
    for case, b, path in todo:
        groups.setdefault((case, b["obligation"]), []).append((b, path, rres[path]))
    for (case, obl), items in groups.items():
        e = match_known(known, case, obl)
        reps = [it for it in items if it[2][0] is True]
        fails = [it for it in items if it[2][0] is None]
        if reps:
            b, path, _ = reps[0]
            if e is not None:
                key = e.get("id", e.get("what"))
                if key not in seen_known:
                    seen_known.add(key)
                    lines.append(f"KNOWN-FINDING: property={prop} {e['what']}")
                known_hits.append({"case": case, "obligation": obl, "finding": e.get("id"),
                                   "replay": os.path.relpath(path, VERIF)})
            else:
                reported.append({"case": case, "obligation": obl, "replay": path,
                                 "model": b["model"]})
                lines.append(f"VIOLATION property={prop} replay={path}")
        elif fails:
            errors.append((case, f"replay failed for {obl}: {fails[0][2][1][-600:]}"))
        else:
            inconclusive.append((case, f"counterexample for {obl} did not reproduce on the "
                                       f"real code (stub/encoding too weak): {items[0][1]}"))

    if unreplayed and not reported:
        inconclusive.append(("replay", f"{len(unreplayed)} counterexample groups were not "
                                       f"replayed (cap) and none of the replayed ones is new"))

    wall = round(time.time() - t0, 2)
    cov = {
        "explanation": explanation,
        "functions_encoded": functions,
        "bounds": bounds,
        "stubs": stubs,
        "out_of_scope": out_of_scope,
        "cases": per_case,
        "paths": tot["paths"],
        "feasible_paths": tot["feasible_paths"],
        "obligations": tot["obligations"],
        "discharged": tot["discharged"],
        "queries": tot["queries"],
        "solver_s": round(tot["solver_s"], 2),
        "solver_unknown": tot["unknown"],
        "max_polynomial_terms": tot["max_terms"],
        "branch_tags": tags,
        "evaluations": max(tot["paths"], 1),
        "distinct_nontrivial": tot["feasible_paths"],
        "rule": "one evaluation = one symbolic path of a harness case (decision prefix); a path "
                "is non-trivial iff its path condition is satisfiable (reachability twin sat); "
                "paths are distinct by construction (different decision prefixes)",
        "samples": samples or [{"note": "no feasible path"}],
        "exhaustive": bool(exhausted and not errors and not inconclusive),
        "traces_validated_against_impl": validated,
        "known_findings_hit": known_hits,
        "violations_reported": reported,
        "counterexamples_not_replayed": [f"{c}/{o}" for c, o in unreplayed][:30],
        "explained_by_known_finding_not_replayed": [f"{c}/{o}" for c, o in skipped_known][:60],
        "inconclusive": [f"{c}: {m}" for c, m in inconclusive][:20],
        "harness_errors": [f"{c}: {m[-800:]}" for c, m in errors][:10],
        "solver": "z3 %s (python API), fresh solver per query" % _z3_version(),
    }
    if extra_cov:
        cov.update(extra_cov)
    ev = {"property_id": prop, "tier": tier, "seed": int(seed), "level": level,
          "coverage": cov, "assumptions": assumptions, "wall_s": wall,
          "violations": len(reported)}
    os.makedirs(EVIDENCE_DIR, exist_ok=True)
    with open(os.path.join(EVIDENCE_DIR, f"{prop}.json"), "w") as f:
        json.dump(ev, f, indent=1, sort_keys=True)
    for ln in lines:
        print(ln)
    print(f"[{prop}] tier={tier} cases={len(outs)} paths={tot['paths']} "
          f"feasible={tot['feasible_paths']} obligations={tot['obligations']} "
          f"discharged={tot['discharged']} queries={tot['queries']} "
          f"solver_s={tot['solver_s']:.1f} wall_s={wall}")
    if reported:
        return 1
    if errors or inconclusive:
        for c, m in errors:
            print(f"HARNESS-ERROR {prop} {c}: {m[-1500:]}", file=sys.stderr)
        for c, m in inconclusive:
            print(f"INCONCLUSIVE {prop} {c}: {m}", file=sys.stderr)
        return 3
    return 0


def _z3_version():
    try:
        import z3
        return z3.get_version_string()
    except Exception:
        return "?"


def model_floats(model):
    """{'x': {'frac':..,'float':..}} -> {'x': float}"""
    out = {}
    for k, v in (model or {}).items():
        out[k] = v["float"] if isinstance(v, dict) and "float" in v else v
    return out


def model_fracs(model):
    out = {}
    for k, v in (model or {}).items():
        if isinstance(v, dict) and "frac" in v:
            out[k] = Fraction(int(v["frac"][0]), int(v["frac"][1]))
        else:
            out[k] = v
    return out
