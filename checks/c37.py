"""C37 - standalone tree-sequence rescaling works."""
import itertools

import numpy as np

from checks import common
from checks.common import Case
from symx import skeletons as SK


class _Col:
    def __init__(self, log, name, cols):
        object.__setattr__(self, "_log", log)
        object.__setattr__(self, "_name", name)
        object.__setattr__(self, "_cols", dict(cols))

    def __getattr__(self, k):
        return object.__getattribute__(self, "_cols")[k]

    def __setattr__(self, k, v):
        self._log.append(("set", self._name + "." + k, v))
        self._cols[k] = v


class _Tables:
    def __init__(self, log, ts):
        self._log = log
        self.nodes = _Col(log, "nodes", {"time": None})
        self.mutations = _Col(log, "mutations", {"time": None})

    def _call(name):
        def f(self, *a, **k):
            self._log.append(("call", name, None))
            return ("TS", id(self)) if name == "tree_sequence" else None
        return f
    sort = _call("sort")
    build_index = _call("build_index")
    compute_mutation_parents = _call("compute_mutation_parents")
    tree_sequence = _call("tree_sequence")


class _TS:
    """real skeleton with symbolic node times and recording tables"""

    def __init__(self, ts, times, log):
        self._ts, self.nodes_time, self._log = ts, times, log

    def __getattr__(self, k):
        return getattr(self._ts, k)

    def dump_tables(self):
        return _Tables(self._log, self._ts)


def h_rescale(ctx, skel, intervals, iterations, segsites):
    from symx import load
    from symx.dom import sym, Q, Implies
    rescaling = load.tsdate_module("rescaling")
    real = SK.all_named()[skel]()
    n = real.num_nodes
    samples = set(int(s) for s in real.samples())
    t = np.empty(n, dtype=object)
    for i in range(n):
        t[i] = 0.0 if i in samples else sym(f"t{i}", "pos")
    for p, c in set(zip(map(int, real.edges_parent), map(int, real.edges_child))):
        if c not in samples:
            ctx.assume(t[p] > t[c])
    mu = sym("mu", "pos")
    log = []
    with load.patched(rescaling):
        try:
            out = rescaling.rescale_tree_sequence(
                _TS(real, t, log), mu, num_intervals=intervals, num_iterations=iterations,
                match_segregating_sites=segsites)
        except AssertionError as e:
            if "rescaling intervals" in repr(e):
                ctx.tag("zero-count-interval")   # counted under C35
                return
            ctx.fail("rescale_ts:no_assertion", detail={"exception": repr(e)[:200]})
            return
        except Exception as e:
            ctx.fail("rescale_ts:no_exception", detail={"exception": repr(e)[:300]})
            return
    nt = [v for op, k, v in log if op == "set" and k == "nodes.time"]
    mt = [v for op, k, v in log if op == "set" and k == "mutations.time"]
    ctx.prove("rescale_ts:node_times_written_once", len(nt) == 1)
    ctx.prove("rescale_ts:mutation_times_written_once", len(mt) == 1)
    ctx.prove("rescale_ts:returns_rebuilt_ts", isinstance(out, tuple) and out[0] == "TS")
    if len(nt) != 1 or len(mt) != 1:
        return
    new = nt[0]
    for s_ in samples:
        ctx.prove(f"rescale_ts:sample[{s_}]_unchanged", Q.of(new[s_]) == 0)
    free = [i for i in range(n) if i not in samples]
    for i in free:
        ctx.prove(f"rescale_ts:node[{i}]_positive", Q.of(new[i]) > 0)
    for i, j in itertools.permutations(free, 2):
        ctx.prove(f"rescale_ts:monotone[{i},{j}]", Implies(t[i] <= t[j], Q.of(new[i]) <= Q.of(new[j])))
    for p, c in set(zip(map(int, real.edges_parent), map(int, real.edges_child))):
        ctx.prove(f"rescale_ts:edge[{p}>{c}]_still_ordered", Q.of(new[p]) >= Q.of(new[c]))
    for m in real.mutations():
        e = real.mutations_edge[m.id]
        if e == -1:
            ctx.prove(f"rescale_ts:mutation[{m.id}]_above_root_at_node", Q.of(mt[0][m.id]) == new[m.node])
        else:
            p, c = int(real.edges_parent[e]), int(real.edges_child[e])
            ctx.prove(f"rescale_ts:mutation[{m.id}]_at_branch_midpoint",
                      Q.of(mt[0][m.id]) * 2 == Q.of(new[p]) + new[c])
    ctx.tag("rescaled")


def cases(tier):
    cs = []
    for sk in ("cat3", "mutation_above_root", "local_root_mutation", "bal4", "two_tree") + \
            (("cat4", "two_parents") if tier == "thorough" else ()):
        for k, it in ((1, 1), (1, 2), (2, 1)):
            for seg in (False, True):
                cs.append(Case(f"rescale_ts:{sk}:k{k}:it{it}:seg{int(seg)}", h_rescale,
                               dict(skel=sk, intervals=k, iterations=it, segsites=seg),
                               weight=k * it, shard_depth=3 if sk in ("bal4", "two_tree") else 0))
    return cs


def run(tier, seed, t0):
    from symx import npx
    cs = cases(tier)
    outs = common.run_cases(cs)
    return common.finish(
        "C37", tier, seed, t0, outs,
        explanation="The real rescaling.rescale_tree_sequence is executed on skeletons with "
        "contemporaneous samples, symbolic non-sample node times (valid: parent older than child), "
        "symbolic mutation rate and recording tables.  z3 proves on every path: it returns (no "
        "assertion / type error), writes node and mutation times once and rebuilds the tree "
        "sequence, keeps samples at 0, maps non-sample times through a non-decreasing map, and puts "
        "each mutation at the midpoint of its branch or at its node when above a root.",
        functions=["tsdate.rescaling.rescale_tree_sequence", "mutational_timescale",
                   "mutational_area", "_fixed_changepoints", "piecewise_scale_point_estimate",
                   "count_mutations"],
        bounds={"skeletons": sorted({c.kw["skel"] for c in cs}), "num_intervals": "1-2",
                "num_iterations": "1-2", "match_segregating_sites": "both"},
        stubs=["tskit tables -> recording stub", "numpy via symx.npx"],
        assumptions=["exact reals", "paths where an interval has zero mutation count trip the "
                     "kernels' own 'Use fewer rescaling intervals' assertion: counted under C35"],
        out_of_scope=["tskit validation of the rebuilt tables"],
        validated=npx.validate(),
        expect_tags=["rescaled"],
    )


def replay(payload):
    import tsdate
    import tskit
    from tsdate.rescaling import rescale_tree_sequence
    kw = payload["case_kw"]
    ts = SK.all_named()[kw["skel"]]()
    try:
        out = rescale_tree_sequence(ts, 0.05, num_intervals=kw["intervals"],
                                    num_iterations=kw["iterations"],
                                    match_segregating_sites=kw["segsites"])
    except Exception as e:
        return True, f"rescale_tree_sequence raised {type(e).__name__}: {str(e)[:200]}"
    bad = []
    s_ = list(ts.samples())
    if not np.array_equal(out.nodes_time[s_], ts.nodes_time[s_]):
        bad.append("samples moved")
    o = np.argsort(ts.nodes_time, kind="stable")
    if np.any(np.diff(out.nodes_time[o]) < -1e-12):
        bad.append("order not preserved")
    for m in out.mutations():
        e = out.mutations_edge[m.id]
        want = out.nodes_time[m.node] if e == -1 else \
            (out.nodes_time[out.edges_parent[e]] + out.nodes_time[out.edges_child[e]]) / 2
        if abs(m.time - want) > 1e-9:
            bad.append(("mutation time", m.id, m.time, want))
    return bool(bad), str(bad[:3])
