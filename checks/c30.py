"""C30 - unary-node detection is exact."""
import numpy as np

from checks import common
from checks.common import Case
from checks.coords import SymCoords
from symx import skeletons as SK

SKELS = ["cat3", "two_tree", "two_parents", "disjoint_node", "two_roots", "unary_nonsample",
         "unary_sample", "swap_child", "three_pieces", "internal_sample", "tri",
         "isolated_sample_mutation", "dead_branch", "dead_branch_mid", "trailing_gap",
         "missing_sample", "root_pieces", "sample_parent_pieces", "unary_nonsample_flagged"]


def _oracle(ts, skip_samples):
    samples = set(int(s) for s in ts.samples())
    for t in ts.trees():
        for u in t.nodes():
            if skip_samples and u in samples:
                continue
            if t.num_children(u) == 1:
                return True
    return False


def h_kernel(ctx, skel, skip_samples):
    from symx import load
    util = load.tsdate_module("util")
    ts = SK.all_named()[skel]()
    with load.patched(util):
        sc = SymCoords(ctx, ts)
        mask = np.full(ts.num_nodes, False)
        if skip_samples:
            mask[list(ts.samples())] = True
        try:
            got = util._contains_unary_nodes(
                mask, ts.edges_parent, sc.left, sc.right, ts.indexes_edge_insertion_order,
                ts.indexes_edge_removal_order, sc.L, ts.num_nodes)
        except Exception as e:
            ctx.fail("no-exception", detail={"exception": repr(e)[:300]})
            return
    want = _oracle(ts, skip_samples)
    ctx.prove("unary:kernel_equals_per_tree_oracle", bool(got) == want)
    ctx.tag("unary" if want else "not-unary")
    # the public wrappers on the concrete skeleton (model validation of the oracle itself)
    prior = load.tsdate_module("prior")
    var = load.tsdate_module("variational")
    ctx.prove("unary:contains_unary_nodes(ts)", bool(util.contains_unary_nodes(ts, skip_samples)) == want)
    ctx.prove("unary:has_locally_unary_nodes(ts)", bool(prior.has_locally_unary_nodes(ts)) == _oracle(ts, False))
    if skip_samples:
        raised = False
        try:
            var.ExpectationPropagation._check_valid_inputs(ts, 1.0, False)
        except ValueError:
            raised = True
        ctx.prove("unary:variational_rejects_iff_nonsample_unary", raised == want)
        ok = True
        try:
            var.ExpectationPropagation._check_valid_inputs(ts, 1.0, True)
        except ValueError:
            ok = False
        ctx.prove("unary:allow_unary_accepts", ok)
    from symx.dom import choice
    choice("pad_")


def cases(tier):
    skels = SKELS + (SK.random_names(8) if tier == "thorough" else [])
    return [Case(f"unary:{sk}:skip{int(s)}", h_kernel, dict(skel=sk, skip_samples=s))
            for sk in skels for s in (True, False)]


def run(tier, seed, t0):
    from symx import npx
    cs = cases(tier)
    outs = common.run_cases(cs)
    return common.finish(
        "C30", tier, seed, t0, outs,
        explanation="util._contains_unary_nodes is executed on skeletons with symbolic breakpoints "
        "(its sweep over coincident insert/remove positions is decided by the solver) with and "
        "without the sample mask, and its verdict is proved equal to a per-tree oracle (tskit's "
        "Tree.num_children); contains_unary_nodes, prior.has_locally_unary_nodes and "
        "ExpectationPropagation._check_valid_inputs are compared with the same oracle on the "
        "concrete skeletons.",
        functions=["tsdate.util._contains_unary_nodes", "tsdate.util.contains_unary_nodes",
                   "tsdate.prior.has_locally_unary_nodes",
                   "tsdate.variational.ExpectationPropagation._check_valid_inputs"],
        bounds={"skeletons": SKELS, "trees": "<= 5", "coordinates": "symbolic, order preserved"},
        stubs=["numpy via symx.npx"],
        assumptions=["index arrays as computed by tskit for the skeleton"],
        out_of_scope=["inputs with more than 5 trees"],
        validated=npx.validate(),
        expect_tags=["unary", "not-unary"],
    )


def replay(payload):
    import tsdate
    from tsdate import util, prior
    kw = payload["case_kw"]
    ts = SK.all_named()[kw["skel"]]()
    want = _oracle(ts, kw["skip_samples"])
    got = util.contains_unary_nodes(ts, kw["skip_samples"])
    bad = []
    if bool(got) != want:
        bad.append(("contains_unary_nodes", bool(got), want))
    if bool(prior.has_locally_unary_nodes(ts)) != _oracle(ts, False):
        bad.append(("has_locally_unary_nodes", _oracle(ts, False)))
    return bool(bad), str(bad)
