"""C03 - sample times are kept except for the minimal push above dated children."""
import numpy as np

from checks import common, constrain
from checks.common import Case


def h_node_moments(ctx, skel):
    """ExpectationPropagation.node_moments: fixed rows report (constraint, 0) whatever the
    posterior row holds; free rows report ((a+1)/b, mean/b)."""
    from symx import load
    from symx.dom import sym
    var = load.tsdate_module("variational")
    ts, ep, ec, fixed = constrain.structure(skel)
    n = ts.num_nodes
    ep_obj = object.__new__(var.ExpectationPropagation)
    post = np.empty((n, 2), dtype=object)
    cons = np.empty((n, 2), dtype=object)
    tm = {}
    for i in range(n):
        post[i, 0] = sym(f"a{i}")
        post[i, 1] = sym(f"b{i}")
        if fixed[i]:
            tm[i] = sym(f"t{i}", "nonneg")
            cons[i, 0] = cons[i, 1] = tm[i]
        else:
            cons[i, 0] = 0.0
            cons[i, 1] = float("inf")
            ctx.assume(post[i, 0] > -1)
            ctx.assume(post[i, 1] > 0)
    ep_obj.node_posterior = post
    ep_obj.node_constraints = cons
    with load.patched(var):
        try:
            mn, va = ep_obj.node_moments()
        except Exception as e:
            ctx.fail("no-exception", detail={"exception": repr(e)})
            return
    for i in range(n):
        if fixed[i]:
            ctx.prove(f"moments:fixed[{i}]:mean_is_time", mn[i] == tm[i])
            ctx.prove(f"moments:fixed[{i}]:var_zero", va[i] == 0)
        else:
            ctx.prove(f"moments:free[{i}]:mean", mn[i] * post[i, 1] == post[i, 0] + 1)
            ctx.prove(f"moments:free[{i}]:var", va[i] * post[i, 1] == mn[i])
            ctx.tag("free-row")


def h_mean_var(ctx, skel, G=3):
    """DiscreteTimeMethod.mean_var: fixed rows report (ts.nodes_time, 0)."""
    from symx import load
    from symx.dom import sym
    core = load.tsdate_module("core")
    ntc = load.tsdate_module("node_time_class")
    ts, ep, ec, fixed = constrain.structure(skel)
    n = ts.num_nodes
    nonfixed = np.array([i for i in range(n) if not fixed[i]], dtype=np.int64)
    tp = np.empty(G, dtype=object)
    tp[0] = 0.0
    acc = 0.0
    for g in range(1, G):
        acc = acc + sym(f"dt{g}", "pos")
        tp[g] = acc
    with load.patched(core, ntc):
        post = ntc.NodeTimeValues(n, nonfixed, tp)
        for u in nonfixed:
            row = np.empty(G, dtype=object)
            for g in range(G):
                row[g] = sym(f"p{u}_{g}", "nonneg")
            ctx.assume(sum(row[1:], row[0]) > 0)
            post[u] = row

        class TS:
            num_nodes = n
            nodes_time = ts.nodes_time
        try:
            mn, va = core.DiscreteTimeMethod.mean_var(TS, post)
        except Exception as e:
            ctx.fail("no-exception", detail={"exception": repr(e)})
            return
    for i in range(n):
        if fixed[i]:
            ctx.prove(f"mean_var:fixed[{i}]:mean_is_time", mn[i] == float(ts.nodes_time[i]))
            ctx.prove(f"mean_var:fixed[{i}]:var_zero", va[i] == 0)
        else:
            ctx.tag("free-row")
            tot = sum(post[i][1:], post[i][0])
            ctx.prove(f"mean_var:free[{i}]:mean",
                      mn[i] * tot == sum((post[i][g] * tp[g] for g in range(1, G)), post[i][0] * tp[0]))


def cases(tier):
    cs = []
    skels = ["cherry", "cat3", "internal_sample", "historical_leaf", "two_parents",
             "unary_sample", "two_tree"]
    if tier == "thorough":
        skels += ["bal4", "tri", "root_not_last", "diploid_two_tree", "two_roots"]
    for sk in skels:
        for k in constrain.iteration_bounds(sk, tier):
            cs.append(Case(f"fixed:{sk}:k={k}", constrain.h_kernel,
                           dict(skel=sk, iters=k, which=["fixed"]), weight=1 + 10 * k))
    for sk in ["cat3", "internal_sample", "historical_leaf", "unary_sample"]:
        cs.append(Case(f"moments:{sk}", h_node_moments, dict(skel=sk)))
        cs.append(Case(f"mean_var:{sk}", h_mean_var, dict(skel=sk, G=3)))
    cs.append(Case("fp-fixed:unary_sample:eps=sym", constrain.h_kernel_fp,
                   dict(skel="unary_sample", which=["fixed", "max"], eps_value=None,
                        qtimeout_ms=120000), weight=50))
    fp = [("cat3", 1e-8), ("internal_sample", 1e-8)]
    if tier == "thorough":      # sized by a full thorough run of C01 (same kernel)
        fp += [("cat3", 1e-6), ("internal_sample", 1e-6), ("historical_leaf", 1e-8)]
    for sk, ev in fp:
        cs.append(Case(f"fp-fixed:{sk}:eps={ev}", constrain.h_kernel_fp,
                       dict(skel=sk, which=["fixed", "max"], eps_value=ev, qtimeout_ms=120000,
                            case_timeout_s=2400 if tier == "thorough" else 420), weight=50))
    return cs


def run(tier, seed, t0):
    from symx import npx
    cs = cases(tier)
    outs = common.run_cases(cs)
    return common.finish(
        "C03", tier, seed, t0, outs,
        explanation="Bounded symbolic execution of the real util._constrain_ages, "
        "ExpectationPropagation.node_moments and DiscreteTimeMethod.mean_var with symbolic "
        "sample times / posteriors: z3 proves that childless samples keep their exact input "
        "time, that a sample with children ends at max(input, child+eps) and nowhere else, and "
        "that both producers hand the constraint pass the exact sample time with zero variance.",
        functions=["tsdate.util._constrain_ages", "tsdate.variational.ExpectationPropagation.node_moments",
                   "tsdate.core.DiscreteTimeMethod.mean_var", "tsdate.node_time_class.NodeTimeValues"],
        bounds={"skeletons": sorted({c.kw["skel"] for c in cs}), "max_nodes": 7,
                "least_squares_iterations": "0-2 quick, 0-3 thorough (Q); 0 (FP)", "grid": 3},
        stubs=["numpy via symx.npx proxy"],
        assumptions=["edge rows children-first", "sample parent strictly older than sample child",
                     "exact real arithmetic in the Q domain"],
        out_of_scope=["rounding in the least-squares phase", "tskit table round trip"],
        validated=npx.validate(),
        expect_tags=["pushed", "free-row"],
    )


def replay(payload):
    c = payload["case"]
    if c.startswith(("moments:", "mean_var:")):
        return _replay_moments(payload)
    return constrain.replay(payload)


def _replay_moments(payload):
    import tsdate
    from symx import skeletons as SK
    case = payload["case_kw"]
    ts = SK.all_named()[case["skel"]]()
    samples = list(ts.samples())
    if payload["case"].startswith("moments:"):
        _, fit = tsdate.date(ts, mutation_rate=1.0, method="variational_gamma", return_fit=True,
                             rescaling_intervals=0, max_iterations=2)
        post = fit.node_posteriors()
        bad = [(u, post["mean"][u], post["variance"][u]) for u in samples
               if post["mean"][u] != ts.nodes_time[u] or post["variance"][u] != 0]
        return bool(bad), str(bad)
    import numpy as np
    if np.any(ts.nodes_time[samples] != 0):
        ts2 = SK.cat3()
    else:
        ts2 = ts
    out = tsdate.date(ts2, mutation_rate=1.0, population_size=1, method="inside_outside")
    s2 = list(ts2.samples())
    bad = [u for u in s2 if out.nodes_time[u] != ts2.nodes_time[u]]
    return bool(bad), str(bad)
