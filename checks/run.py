"""./check <id> --tier quick|thorough [--replay file]"""
import argparse
import importlib
import json
import os
import sys
import time


def main():
    ap = argparse.ArgumentParser()
    ap.add_argument("prop")
    ap.add_argument("--tier", default=os.environ.get("VERIF_TIER", "quick"),
                    choices=["quick", "thorough"])
    ap.add_argument("--replay")
    a = ap.parse_args()
    prop = a.prop.upper()
    seed = int(os.environ.get("VERIF_SEED", "0") or 0)
    from checks import common
    if a.replay:
        res = common.replay_files(prop, [os.path.abspath(a.replay)])
        rep, info = res[os.path.abspath(a.replay)]
        print(info)
        if rep is True:
            print(f"VIOLATION property={prop} replay={os.path.abspath(a.replay)}")
            return 1
        return 0 if rep is False else 3
    os.environ["NUMBA_DISABLE_JIT"] = "1"
    os.environ["VERIF_TIER_ACTIVE"] = a.tier
    mod = importlib.import_module("checks." + prop.lower())
    t0 = time.time()
    return mod.run(a.tier, seed, t0)


if __name__ == "__main__":
    sys.exit(main())
