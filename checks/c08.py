"""C08 - dates depend only on topology, node times, sample flags and mutation placement."""
import math

import numpy as np

from checks import common, ep_h
from checks import discrete_h as D
from checks.c07 import _same, EP_ARRAYS
from checks.common import Case
from checks.coords import SymCoords, SymTS
from symx import skeletons as SK

SKELS = ["cat3", "two_tree", "multi_hit", "two_parents", "mutation_above_root", "diploid_cherry",
         "diploid_two_tree"]

# what the statistical model is allowed to look at (everything else is "irrelevant data")
ALLOWED = {
    "num_nodes", "num_edges", "num_sites", "num_mutations", "num_samples", "num_trees",
    "num_individuals", "edges_parent", "edges_child", "edges_left", "edges_right",
    "nodes_time", "nodes_flags", "samples", "mutations_node", "mutations_site", "mutations_edge",
    "sites_position", "sequence_length", "get_sequence_length", "indexes_edge_insertion_order",
    "indexes_edge_removal_order", "edges", "edge", "trees", "first", "mutations", "sites", "site",
    "breakpoints", "node", "nodes", "num_provenances", "table_metadata_schemas", "time_units",
    "get_num_nodes", "get_num_trees", "get_sample_size", "at", "at_index", "tables", "edge_diffs",
}
# read by block_singletons even when every individual is phased (then masked out): reading is
# not depending - the two-run comparison uses a different individual assignment in that case
ALLOWED |= {"nodes_individual", "individuals", "individual", "individuals_nodes"}
ALLOWED_UNPHASED = set()
OBJ_ALLOWED = {
    "mutation": {"id", "site", "node", "edge", "parent"},
    "site": {"id", "position", "mutations"},
    "node": {"id", "time", "flags", "is_sample"},
    "edge": {"id", "left", "right", "parent", "child", "span"},
}


class _Obj:
    def __init__(self, kind, o, log, sc=None):
        self.__dict__.update(_k=kind, _o=o, _log=log, _sc=sc)

    def __getattr__(self, k):
        if k not in OBJ_ALLOWED[self._k]:
            self._log.append(f"{self._k}.{k}")
        v = getattr(self._o, k)
        if self._k == "site" and k == "position" and self._sc is not None:
            return self._sc.sites[self._o.id]
        if self._k == "site" and k == "mutations":
            return [_Obj("mutation", m, self._log) for m in v]
        return v


class PoisonTS(SymTS):
    """SymTS that records every read of an attribute the model must not depend on."""

    def __init__(self, ts, sc, log, unphased=False):
        SymTS.__init__(self, ts, sc)
        self._log = log
        self._ok = ALLOWED | (ALLOWED_UNPHASED if unphased else set())

    def __getattr__(self, k):
        if k not in self._ok:
            self._log.append("ts." + k)
        return getattr(self._ts, k)

    def mutations(self):
        for m in self._ts.mutations():
            yield _Obj("mutation", m, self._log)

    def sites(self):
        for s in self._ts.sites():
            yield _Obj("site", s, self._log, self._sc)

    def site(self, i):
        return _Obj("site", self._ts.site(i), self._log, self._sc)

    def node(self, i):
        return _Obj("node", self._ts.node(i), self._log)

    def nodes(self):
        for n in self._ts.nodes():
            yield _Obj("node", n, self._log)


def perturb(ts, unphased, extra_sites):
    """A second input that agrees with `ts` on edges, node times, sample flags, mutation
    positions and nodes (and individuals when unphased) and differs in everything else."""
    import tskit
    t = ts.dump_tables()
    for tab in (t.nodes, t.sites, t.mutations, t.populations, t.individuals):
        tab.metadata_schema = tskit.MetadataSchema(None)
    t.nodes.clear(), t.sites.clear(), t.mutations.clear()
    t.populations.add_row(metadata=b"pop-a")
    t.populations.add_row(metadata=b"pop-b")
    extra_ind = None
    if not unphased:
        t.individuals.clear()
        for i in range(3):
            t.individuals.add_row(flags=7, metadata=b"x" * i)
    for n in ts.nodes():
        ind = n.individual if unphased else (n.id % 3)
        t.nodes.add_row(flags=n.flags | (0 if n.is_sample() else 1 << 20), time=n.time,
                        population=n.id % 2, individual=ind, metadata=b"node%d" % n.id)
    old_pos = list(ts.sites_position)
    new_pos = sorted(old_pos + list(extra_sites))
    remap = {}
    for p in new_pos:
        sid = t.sites.add_row(p, ancestral_state="ACGT"[len(remap) % 4] * 2, metadata=b"s")
        if p in old_pos:
            remap[old_pos.index(p)] = sid
    for m in ts.mutations():
        t.mutations.add_row(remap[m.site], m.node, derived_state="T" * (m.id + 1), metadata=b"mm",
                            time=tskit.UNKNOWN_TIME)
    t.provenances.add_row(record='{"software": "elsewhere"}')
    t.metadata_schema = tskit.MetadataSchema(None)
    t.sort()
    t.build_index()
    t.compute_mutation_parents()
    return t.tree_sequence()


def _extra_sites(real, k):
    """k mutation-free sites at positions not used by the skeleton (between coordinates)."""
    used = set(real.sites_position) | set(real.edges_left) | set(real.edges_right)
    out, x = [], 0.5
    while len(out) < k:
        if x not in used and x < real.sequence_length:
            out.append(x)
        x += 2.25
        if x >= real.sequence_length:
            x = 0.75 + 0.125 * len(out)
    return out


def _pair(ctx, skel, unphased, extra):
    real = SK.all_named()[skel]()
    other = perturb(real, unphased, _extra_sites(real, extra))
    log = []
    A = PoisonTS(real, SymCoords(ctx, real, name_by_position=True), log, unphased)
    B = PoisonTS(other, SymCoords(ctx, other, name_by_position=True), log, unphased)
    return real, A, B, log


def h_variational(ctx, skel, phased, extra):
    from symx.dom import sym
    mu = sym("mu", "pos")
    with ep_h.patched_ep(more=("phasing", "rescaling", "util")) as (var, approx, npx):
        real, A, B, log = _pair(ctx, skel, not phased, extra)
        objs = []
        for ts in (A, B):
            try:
                objs.append(var.ExpectationPropagation(ts, mutation_rate=mu, singletons_phased=phased))
            except Exception as e:
                ctx.fail("no-exception", detail={"exception": repr(e)[:300], "second": ts is B})
                return
    a, b = objs
    for nm in EP_ARRAYS:
        if nm == "mutation_order":
            continue
        if hasattr(a, nm) or hasattr(b, nm):
            _same(ctx, f"ep.{nm}", getattr(a, nm), getattr(b, nm))
    ctx.prove("no_irrelevant_attribute_read", not log, detail={"read": sorted(set(log))[:10]})
    ctx.tag("variational" if phased else "variational-unphased")
    from symx.dom import choice
    choice("pad_")


def h_discrete(ctx, skel, G, space, kind, extra):
    from symx.dom import Q
    real, A, B, log = _pair(ctx, skel, False, extra)
    res = []
    for ts in (A, B):
        with D.setup(ctx, ts, G, space, build="method") as env:
            m = D.make_method(env, ts, kind)
            try:
                if kind == "inside_outside":
                    r = m.run(eps=env.eps, outside_standardize=True, ignore_oldest_root=False,
                              probability_space=space, num_threads=None, cache_inside=False)
                else:
                    r = m.run(eps=env.eps, probability_space=space, num_threads=None,
                              cache_inside=False)
            except Exception as e:
                ctx.fail("no-exception", detail={"exception": repr(e)[:300], "second": ts is B})
                return
            res.append(r)
    r1, r2 = res
    samples = set(int(s) for s in real.samples())
    for u in range(real.num_nodes):
        if u in samples:
            continue
        ctx.prove(f"discrete:{kind}:mean[{u}]_same", Q.of(r2.posterior_mean[u]) == Q.of(r1.posterior_mean[u]))
        if kind == "inside_outside":
            ctx.prove(f"discrete:{kind}:var[{u}]_same", Q.of(r2.posterior_var[u]) == Q.of(r1.posterior_var[u]))
    ctx.prove("no_irrelevant_attribute_read", not log, detail={"read": sorted(set(log))[:10]})
    ctx.tag("discrete-" + kind)
    from symx.dom import choice
    choice("pad_")


def h_prior(ctx, skel, extra):
    from symx import load
    from symx.dom import Q
    prior = load.tsdate_module("prior")
    ntc = load.tsdate_module("node_time_class")
    with load.patched(prior, ntc):
        real, A, B, log = _pair(ctx, skel, False, extra)
        out = []
        for ts in (A, B):
            try:
                out.append(prior.SpansBySamples(ts))
            except Exception as e:
                ctx.fail("no-exception", detail={"exception": repr(e)[:300], "second": ts is B})
                return
    s1, s2 = out
    ctx.prove("prior:same_nodes_to_date", list(map(int, s1.nodes_to_date)) == list(map(int, s2.nodes_to_date)))
    for u in s1.nodes_to_date:
        u = int(u)
        ctx.prove(f"prior:node[{u}]:same_span", Q.of(s2.node_spans[u]) == Q.of(s1.node_spans[u]))
        g1 = {(int(T), int(k)): v for T, arr in s1.get_spans(u).items()
              for k, v in zip(arr["descendant_tips"], arr["span"])}
        g2 = {(int(T), int(k)): v for T, arr in s2.get_spans(u).items()
              for k, v in zip(arr["descendant_tips"], arr["span"])}
        ctx.prove(f"prior:node[{u}]:same_span_table_keys", set(g1) == set(g2))
        for key in g1:
            if key in g2:
                ctx.prove(f"prior:node[{u}]:span{key}_same", Q.of(g1[key]) == Q.of(g2[key]))
    ctx.prove("no_irrelevant_attribute_read", not log, detail={"read": sorted(set(log))[:10]})
    ctx.tag("prior")
    from symx.dom import choice
    choice("pad_")


def cases(tier):
    cs = []
    for sk in SKELS:
        for extra in (0, 1, 2):
            cs.append(Case(f"variational:{sk}:phased:extra{extra}", h_variational,
                           dict(skel=sk, phased=True, extra=extra)))
            if sk.startswith("diploid"):
                cs.append(Case(f"variational:{sk}:unphased:extra{extra}", h_variational,
                               dict(skel=sk, phased=False, extra=extra)))
    for sk, G in (("cat3", 2), ("multi_hit", 2)) + ((("two_tree", 3), ("two_parents", 2)) if tier == "thorough" else ()):
        for space in ("linear", "logarithmic"):
            for kind in ("inside_outside", "maximization"):
                cs.append(Case(f"discrete:{kind}:{sk}:G{G}:{space}", h_discrete,
                               dict(skel=sk, G=G, space=space, kind=kind, extra=1), weight=40))
    for sk in ("two_tree", "multi_hit", "two_parents"):
        cs.append(Case(f"prior:{sk}", h_prior, dict(skel=sk, extra=1)))
    return cs


def run(tier, seed, t0):
    from symx import npx
    cs = cases(tier)
    outs = common.run_cases(cs)
    return common.finish(
        "C08", tier, seed, t0, outs,
        explanation="Two-run non-interference: a real skeleton and a copy that agrees on edges, node "
        "times, sample flags, mutation positions and nodes (and individuals when singletons are "
        "unphased) but differs in node / site / mutation metadata, ancestral and derived states, "
        "populations, individuals (phased case), non-sample flag bits, mutation times, provenance, "
        "metadata schema and 0-2 extra mutation-free sites, both with the SAME symbolic genome "
        "coordinates.  Both go through the real ExpectationPropagation.__init__ (phased / unphased), "
        "the whole InsideOutsideMethod.run / MaximizationMethod.run and prior.SpansBySamples behind a "
        "proxy that records every attribute read outside the model's allow-list.  z3 proves all "
        "extracted arrays / posteriors equal and the recorded list is proved empty on every path.",
        functions=["tsdate.variational.ExpectationPropagation.__init__", "tsdate.rescaling.count_mutations",
                   "tsdate.phasing.block_singletons", "tsdate.core.InsideOutsideMethod.run/MaximizationMethod.run",
                   "tsdate.discrete.Likelihoods.get_mut_edges/__init__", "tsdate.util.mutation_span_array",
                   "tsdate.prior.SpansBySamples"],
        bounds={"skeletons": SKELS, "extra monomorphic sites": "0-2 (incl. as many as there are extra "
                "mutations at multiply-hit sites)", "grid": "2-3 timepoints", "coordinates": "symbolic"},
        stubs=["tskit TreeSequence -> recording proxy with symbolic coordinates", "Poisson pmf uninterpreted"],
        assumptions=["allow-list = edges, node times/flags, samples, mutation node/site/edge, site "
                     "positions, sequence length, tree iteration, counts" ],
        out_of_scope=["get_modified_ts (copies the irrelevant data through: C02)"],
        validated=npx.validate(),
        expect_tags=["variational", "variational-unphased", "discrete-inside_outside",
                     "discrete-maximization", "prior"],
    )


def replay(payload):
    """Public API: date an input and its perturbed twin with every method."""
    import tsdate
    kw = payload["case_kw"]
    bad = []
    names = [kw["skel"]] + [s for s in ("multi_hit", "two_tree", "diploid_two_tree") if s != kw["skel"]]
    for name in names:
        real = SK.all_named()[name]()
        for extra in (0, 1, 2):
            for unphased in ((False, True) if name.startswith("diploid") else (False,)):
                other = perturb(real, unphased, _extra_sites(real, extra))
                runs = [("variational_gamma", dict(rescaling_intervals=2, singletons_phased=not unphased))]
                if not unphased:
                    runs += [("inside_outside", dict(population_size=10)),
                             ("maximization", dict(population_size=10))]
                for method, k in runs:
                    try:
                        a = tsdate.date(real, method=method, mutation_rate=0.1, **k)
                        b = tsdate.date(other, method=method, mutation_rate=0.1, **k)
                    except AssertionError as e:
                        if "rescaling intervals" in repr(e):
                            continue
                        raise
                    if not np.allclose(a.nodes_time, b.nodes_time, rtol=1e-9, atol=1e-12):
                        bad.append((name, extra, unphased, method, a.nodes_time.tolist(), b.nodes_time.tolist()))
                    else:
                        for u in range(a.num_nodes):
                            ma, mb = a.node(u).metadata, b.node(u).metadata
                            if isinstance(ma, dict) and isinstance(mb, dict) and "mn" in ma and not (
                                    abs(ma["mn"] - mb["mn"]) <= 1e-9 * abs(ma["mn"]) + 1e-12
                                    and abs(ma["vr"] - mb["vr"]) <= 1e-9 * abs(ma["vr"]) + 1e-12):
                                bad.append((name, extra, unphased, method, "metadata", u))
                                break
    return bool(bad), str(bad[:3])
