"""Inductive-step harnesses over ExpectationPropagation.propagate_likelihood /
propagate_prior / _rescale_factors shared by C21 (bookkeeping) and C05 (proper, capped)."""
import math

import numpy as np

from checks import ep_h

# name -> (n, edges(parent, child), fixed flags, fixed times, blocks (first parent, second parent))
CONFIGS = {
    # 0,1,2 samples at 0; 3=(0,1); 4=(3,2)
    "chain": (5, [(3, 0), (3, 1), (4, 2), (4, 3)], [1, 1, 1, 0, 0], {}, []),
    # historical sample 2 at symbolic time > 0
    "hist": (5, [(3, 0), (3, 1), (4, 2), (4, 3)], [1, 1, 1, 0, 0], {2: "sym"}, []),
    # fixed parent above a free child: 0,1 samples; 2=(0,1) free; 3 = internal sample above 2
    "fixed_parent": (5, [(2, 0), (2, 1), (3, 2), (4, 3)], [1, 1, 0, 1, 0], {3: "sym"}, []),
    # sample directly above a sample (both fixed -> skipped)
    "both_fixed": (4, [(2, 0), (3, 2), (3, 1)], [1, 1, 1, 0], {2: "sym"}, []),
    # unphased: individual with leaf edges to parents 3 and 4 (block 0), 3 and 3 (twin, block 1)
    "blocks": (5, [(3, 0), (4, 1), (3, 2), (4, 3)], [1, 1, 1, 0, 0], {},
               [(3, 4), (3, 3)]),
    # block whose second parent is a fixed (internal sample) node
    "block_fixed": (5, [(2, 0), (3, 1), (3, 2), (4, 3)], [1, 1, 0, 1, 0], {3: "sym"},
                    [(2, 3), (3, 2)]),
}

NODE_MOMENTS = ["moments", "rootward_moments", "leafward_moments", "unphased_moments",
                "sideways_moments"]


def _common(ctx, config, init, tiny):
    from symx.dom import sym
    var, approx, hyp = ep_h.modules()
    n, edges, fixed, ftime, blocks = CONFIGS[config]
    st = ep_h.State(ctx, var, n, edges, [bool(x) for x in fixed], blocks, ftime, init=init)
    if not tiny:
        for i in range(n):
            sc = st.factors.scale[i]
            if not isinstance(sc, float):
                ctx.assume(sc >= 1)     # keeps `scale < TINY` false without a fork
    max_shape = sym("max_shape")
    ctx.assume(max_shape > 1)
    min_step = sym("min_step", "pos")
    ctx.assume(min_step < 1)
    return var, st, max_shape, min_step


def _liks(prefix, m):
    from symx.dom import sym
    lik = np.empty((m, 2), dtype=object)
    for e in range(m):
        lik[e, 0] = sym(f"{prefix}y{e}", "nonneg")
        lik[e, 1] = sym(f"{prefix}mu{e}", "pos")
    return lik


def h_likelihood(ctx, config, order, unphased=False, init="I", tiny=False, which=("J", "I")):
    """One call of propagate_likelihood over `order` from an arbitrary state satisfying J (by
    construction) and I (assumed), projection results arbitrary-or-skipped."""
    with ep_h.patched_ep(stub_moments=NODE_MOMENTS) as (var_, approx, npx):
        var, st, max_shape, min_step = _common(ctx, config, init, tiny)
        if unphased:
            ep, ec = st.bj, st.bk
            lik = _liks("b", len(st.blocks))
        else:
            ep, ec = st.ep, st.ec
            lik = _liks("e", len(st.edges))
        lognorm = npx.zeros(len(ep))
        before = st.posterior.copy()
        if init == "I" and "I" in which:
            # the invariant includes the cap: shapes are already <= max_shape
            for i in range(st.n):
                if not st.fixed[i]:
                    ctx.assume(st.posterior[i, 0] + 1 <= max_shape)
        try:
            var.ExpectationPropagation.propagate_likelihood(
                np.array(order, dtype=np.int32), ep, ec, lik, st.constraints, st.posterior,
                st.factors, lognorm, max_shape, min_step, unphased)
        except Exception as e:
            ctx.fail("no-exception", detail={"exception": repr(e)[:300]})
            return
        if "J" in which:
            ep_h.prove_J(ctx, st)
            ep_h.prove_fixed_untouched(ctx, st, before)
        if "I" in which:
            ep_h.prove_I(ctx, st, max_shape)
        touched = {int(ep[i]) for i in order} | {int(ec[i]) for i in order}
        ctx.tag("unphased" if unphased else "phased")
        for i in order:
            p, c = int(ep[i]), int(ec[i])
            fp, fc = st.fixed[p], st.fixed[c]
            ctx.tag("rule:" + ("both_fixed" if fp and fc else "fixed_parent" if fp else
                               "fixed_child" if fc else "twin" if p == c else "free_free"))
        if not isinstance(lognorm[order[0]], float):
            ctx.tag("updated")
        else:
            ctx.tag("skipped")


def h_prior(ctx, config, em_maxitt=1, init="I", which=("J", "I")):
    """propagate_prior on the unconstrained roots."""
    from symx.dom import sym
    with ep_h.patched_ep() as (var_, approx, npx):
        var, st, max_shape, min_step = _common(ctx, config, init, tiny=False)
        is_child = {c for p, c in st.edges}
        free = np.array([(not st.fixed[i]) and i not in is_child for i in range(st.n)])
        before = st.posterior.copy()
        if "I" in which:
            for i in range(st.n):
                if not st.fixed[i]:
                    ctx.assume(st.posterior[i, 0] + 1 <= max_shape)
        # the cavity (posterior minus prior factor) of a free root is proper: it is the product
        # of the likelihood messages alone
        for i in np.flatnonzero(free):
            cav = st.posterior[i] - st.factors.node[i, 0] * st.factors.scale[i]
            ctx.assume(cav[0] > -1)
            ctx.assume(cav[1] > 0)
        try:
            var.ExpectationPropagation.propagate_prior(
                free, st.posterior, st.factors, max_shape, em_maxitt, sym("reltol", "pos"))
        except Exception as e:
            ctx.fail("no-exception", detail={"exception": repr(e)[:300]})
            return
        if "J" in which:
            ep_h.prove_J(ctx, st)
            ep_h.prove_fixed_untouched(ctx, st, before)
            for i in range(st.n):
                if not free[i] and not st.fixed[i]:
                    for k in range(2):
                        ctx.prove(f"prior:nonroot[{i}][{k}]_unchanged",
                                  st.posterior[i, k] == before[i, k])
        if "I" in which:
            ep_h.prove_I(ctx, st, max_shape)
        ctx.tag("prior")


def h_rescale_factors(ctx, config):
    """_rescale_factors never changes posteriors, resets scale to 1; _assemble_factors of the
    result equals the posterior."""
    with ep_h.patched_ep() as (var_, approx, npx):
        var, st, max_shape, min_step = _common(ctx, config, "I", tiny=True)
        before = st.posterior.copy()
        try:
            var._rescale_factors(st.factors)
            asm = var._assemble_factors(st.factors)
        except Exception as e:
            ctx.fail("no-exception", detail={"exception": repr(e)[:300]})
            return
        for i in range(st.n):
            ctx.prove(f"rescale:scale[{i}]=1", st.factors.scale[i] == 1)
            for k in range(2):
                ctx.prove(f"rescale:assemble[{i}][{k}]=posterior", asm[i, k] == before[i, k])
        ep_h.prove_J(ctx, st, tag=":after_rescale")
        ctx.tag("rescale_factors")


def h_iterate(ctx, config, regularise=True, which=("J",)):
    """One whole ExpectationPropagation.iterate (blocks, edges in the real traversal order,
    prior, rescale) with check_valid on; J must hold at the end and check_valid must pass."""
    from symx.dom import sym
    with ep_h.patched_ep(stub_moments=NODE_MOMENTS) as (var_, approx, npx):
        var, st, max_shape, min_step = _common(ctx, config, "I", tiny=False)
        n, edges, fixed, ftime, blocks = CONFIGS[config]
        obj = object.__new__(var.ExpectationPropagation)
        obj.edge_parents, obj.edge_children = st.ep, st.ec
        obj.node_constraints = st.constraints
        obj.edge_likelihoods = _liks("e", len(edges))
        obj.block_likelihoods = _liks("b", len(blocks))
        obj.block_nodes = np.array([st.bj, st.bk], dtype=np.int32).reshape(2, len(blocks))
        obj.factors = st.factors
        obj.node_posterior = st.posterior
        obj.edge_logconst = npx.zeros(len(edges))
        obj.block_logconst = npx.zeros(len(blocks))
        is_child = {c for p, c in edges}
        obj.unconstrained_roots = np.array([(not fixed[i]) and i not in is_child
                                            for i in range(n)])
        e = np.arange(len(edges), dtype=np.int32)
        obj.edge_order = np.concatenate((e[:-1], np.flip(e)))
        obj.block_order = np.arange(len(blocks), dtype=np.int32)
        for i in range(n):
            if not fixed[i]:
                ctx.assume(st.posterior[i, 0] + 1 <= max_shape)
        try:
            obj.iterate(max_shape=max_shape, min_step=min_step, em_maxitt=0,
                        regularise=regularise, check_valid=True)
        except AssertionError as ex:
            ctx.fail("iterate:check_valid", detail={"exception": repr(ex)[:300]})
            return
        except Exception as ex:
            ctx.fail("no-exception", detail={"exception": repr(ex)[:300]})
            return
        ep_h.prove_J(ctx, st, tag=":iterate")
        for i in range(n):
            ctx.prove(f"iterate:scale[{i}]=1", st.factors.scale[i] == 1)
        ctx.tag("iterate")
