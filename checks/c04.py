"""C04 - reported posteriors in metadata equal the fit object's posteriors."""
import math

import numpy as np

from checks import common, mdstub, constrain
from checks import discrete_h as D
from checks.c10 import _ts_for
from checks.common import Case


def h_md_flow(ctx, skel, method):
    """Real get_modified_ts + set_time_metadata on recording tables: node rows receive exactly
    (posterior_mean[i], posterior_var[i]), mutation rows (mutation_mean[j], mutation_var[j]);
    maximization (posterior_var None) writes nothing."""
    from symx import load
    from symx.dom import sym, Q
    from checks.c01 import _StubTS
    core = load.tsdate_module("core")
    util = load.tsdate_module("util")
    ts, ep, ec, fixed = constrain.structure(skel)
    n, nm = ts.num_nodes, ts.num_mutations
    mean = np.empty(n, dtype=object)
    var = np.empty(n, dtype=object)
    for i in range(n):
        mean[i] = sym(f"mn{i}", "nonneg")
        var[i] = sym(f"vr{i}", "nonneg")
    for p, c in set(zip(map(int, ep), map(int, ec))):
        if fixed[p] and fixed[c]:
            ctx.assume(mean[p] > mean[c])
    mmean = np.empty(nm, dtype=object)
    mvar = np.empty(nm, dtype=object)
    for j in range(nm):
        mmean[j] = sym(f"mmn{j}")
        mvar[j] = sym(f"mvr{j}")
    log = []
    self = object.__new__(core.EstimationMethod)
    stub = _StubTS(ts, log)
    self.ts = stub
    self.time_units = "generations"
    self.set_metadata = None
    self.min_branch_length = sym("eps", "pos")
    self.constr_iterations = 0
    self.provenance_params = None
    self.name = method
    tlog = {"nodes": [], "mutations": []}
    real_dump = stub.dump_tables

    def dump_tables():
        t = real_dump()
        for nm_, cnt in (("nodes", n), ("mutations", nm)):
            tab = getattr(t, nm_)
            md = mdstub.Table("permissive", None, tlog[nm_], cnt)
            object.__setattr__(tab, "_md", md)
            cols = object.__getattribute__(tab, "_cols")
            cols["metadata_schema"] = md.metadata_schema
            cols["metadata"] = md.metadata
            cols["num_rows"] = cnt
            cols["packset_metadata"] = md.packset_metadata
            cols["drop_metadata"] = md.drop_metadata
            cols["__iter__"] = md.__iter__
        return t
    stub.dump_tables = dump_tables
    if method == "variational_gamma":
        res = core.Results(mean, var, mmean, mvar, None, ts.mutations_node.copy(), None)
    elif method == "inside_outside":
        res = core.Results(mean, var, None, None, None, ts.mutations_node.copy(), None)
    else:
        res = core.Results(mean, None, None, None, None, ts.mutations_node.copy(), None)
    with load.patched(util) as npx:
        npx.fork_isclose = False
        try:
            self.get_modified_ts(res)
        except Exception as e:
            ctx.fail("no-exception", detail={"exception": repr(e)[:300]})
            return
    nrows = [r for k, r in tlog["nodes"] if k == "packset"]
    mrows = [r for k, r in tlog["mutations"] if k == "packset"]
    if method == "maximization":
        ctx.prove("md:maximization_writes_nothing", not nrows and not mrows)
        ctx.tag("nothing")
        return
    ctx.prove("md:nodes_written_once", len(nrows) == 1 and len(nrows[0]) == n)
    if len(nrows) == 1:
        for i, r in enumerate(nrows[0]):
            d = dict(r[2])
            ctx.prove(f"md:node[{i}]:mn", (Q.of(d.get("mn", -1)) == mean[i]) is True)
            ctx.prove(f"md:node[{i}]:vr", (Q.of(d.get("vr", -1)) == var[i]) is True)
    if method == "variational_gamma":
        ctx.prove("md:mutations_written_once", len(mrows) == 1 and len(mrows[0]) == nm)
        if len(mrows) == 1:
            for j, r in enumerate(mrows[0]):
                d = dict(r[2])
                ctx.prove(f"md:mutation[{j}]:mn", (Q.of(d.get("mn", -1)) == mmean[j]) is True)
                ctx.prove(f"md:mutation[{j}]:vr", (Q.of(d.get("vr", -1)) == mvar[j]) is True)
    else:
        ctx.prove("md:inside_outside_no_mutation_metadata", not mrows)
    ctx.tag("written")


def h_vg_results(ctx, skel):
    """VariationalGammaMethod.run: the Results handed to get_modified_ts are the fit's
    node_posteriors()/mutation_posteriors(), which are (alpha+1)/beta and mean/beta; fixed rows
    (time, 0); NaN mutation rows stay NaN."""
    from symx import load
    from symx.dom import sym, Q, choice
    core = load.tsdate_module("core")
    var = load.tsdate_module("variational")
    ts, ep, ec, fixed = constrain.structure(skel)
    n, nm = ts.num_nodes, ts.num_mutations
    with load.patched(core, var) as npx:
        fit = object.__new__(var.ExpectationPropagation)
        post = npx.zeros((n, 2))
        cons = npx.zeros((n, 2))
        for i in range(n):
            if fixed[i]:
                t = float(ts.nodes_time[i])
                cons[i, 0] = cons[i, 1] = t
                post[i, 0], post[i, 1] = sym(f"junk_a{i}"), sym(f"junk_b{i}")
            else:
                cons[i, 0], cons[i, 1] = 0.0, math.inf
                post[i, 0], post[i, 1] = sym(f"a{i}"), sym(f"b{i}", "pos")
                ctx.assume(post[i, 0] > -1)
        mpost = npx.full((nm, 2), math.nan)
        for j in range(nm):
            if not choice(f"nan_mut{j}_"):
                mpost[j, 0], mpost[j, 1] = sym(f"ma{j}"), sym(f"mb{j}", "pos")
                ctx.assume(mpost[j, 0] > -1)
        fit.node_posterior, fit.node_constraints, fit.mutation_posterior = post, cons, mpost
        fit.mutation_nodes = ts.mutations_node.copy()
        fit.infer = lambda **kw: None
        m = object.__new__(core.VariationalGammaMethod)
        m.ts, m.mutation_rate, m.allow_unary, m.pbar = ts, sym("mu", "pos"), False, False
        m.provenance_params = None
        saved = var.ExpectationPropagation
        core.variational.ExpectationPropagation = lambda *a, **k: fit
        try:
            res = m.run(max_iterations=1, max_shape=1000, rescaling_intervals=0,
                        rescaling_iterations=0, match_segregating_sites=False,
                        regularise_roots=True, singletons_phased=True)
            npost = fit.node_posteriors()
            mposts = fit.mutation_posteriors()
        except Exception as e:
            ctx.fail("no-exception", detail={"exception": repr(e)[:300]})
            return
        finally:
            core.variational.ExpectationPropagation = saved
    from symx.dom import qeq
    for i in range(n):
        ctx.prove(f"vg:node[{i}]:mean=node_posteriors", qeq(res.posterior_mean[i], npost["mean"][i]))
        ctx.prove(f"vg:node[{i}]:var=node_posteriors", qeq(res.posterior_var[i], npost["variance"][i]))
        if fixed[i]:
            ctx.prove(f"vg:sample[{i}]:(time,0)", qeq(res.posterior_mean[i], float(ts.nodes_time[i]))
                      and qeq(res.posterior_var[i], 0.0))
        else:
            ctx.prove(f"vg:node[{i}]:mean=(a+1)/b", res.posterior_mean[i] * post[i, 1] == post[i, 0] + 1)
            ctx.prove(f"vg:node[{i}]:var=mean/b", res.posterior_var[i] * post[i, 1] == res.posterior_mean[i])
    for j in range(nm):
        ctx.prove(f"vg:mut[{j}]:mean=mutation_posteriors", qeq(res.mutation_mean[j], mposts["mean"][j]))
        ctx.prove(f"vg:mut[{j}]:var=mutation_posteriors", qeq(res.mutation_var[j], mposts["variance"][j]))
        if isinstance(mpost[j, 0], float):
            ctx.prove(f"vg:mut[{j}]:nan_stays_nan", isinstance(res.mutation_mean[j], float)
                      and res.mutation_mean[j] != res.mutation_mean[j])
            ctx.tag("nan-mutation")
        else:
            ctx.prove(f"vg:mut[{j}]:mean=(a+1)/b", res.mutation_mean[j] * mpost[j, 1] == mpost[j, 0] + 1)
            ctx.tag("finite-mutation")
    ctx.prove("vg:mutation_node_is_fit_mapping", res.mutation_node is fit.mutation_nodes)
    ctx.prove("vg:fit_object_returned", res.fit_object is fit)


def h_io_rows(ctx, skel, G, space, zero_first):
    """inside_outside: final posterior rows are non-negative, sum to one; mean/var are the
    rows' moments; samples (time, 0).  (Shares the whole-run harness with C10.)"""
    from symx.dom import Q
    ts = _ts_for(skel)
    with D.setup(ctx, ts, G, space, zero_first=zero_first, build="method") as env:
        m = D.make_method(env, ts, "inside_outside")
        try:
            res = m.run(eps=env.eps, outside_standardize=True, ignore_oldest_root=False,
                        probability_space=space, num_threads=None, cache_inside=False)
        except Exception as e:
            ctx.fail("no-exception", detail={"exception": repr(e)[:300]})
            return
        post = res.fit_object.posterior_grid
        tp = env.timepoints
        for u in env.nonfixed:
            row = [Q.of(x) for x in post[u]]
            for g in range(G):
                ctx.prove(f"io:row[{u}][{g}]>=0", row[g] >= 0)
            ctx.prove(f"io:row[{u}]_sums_to_1", sum(row[1:], row[0]) == 1)
            mean = sum((row[g] * tp[g] for g in range(1, G)), row[0] * tp[0])
            ctx.prove(f"io:mean[{u}]=row_mean", res.posterior_mean[u] == mean)
            var = sum((row[g] * (tp[g] - mean) * (tp[g] - mean) for g in range(G)), Q.of(0))
            ctx.prove(f"io:var[{u}]=row_variance", res.posterior_var[u] == var)
        for s_ in ts.samples():
            ctx.prove(f"io:sample[{s_}]:(time,0)",
                      (Q.of(res.posterior_mean[s_]) == float(ts.nodes_time[s_])) is True
                      and (Q.of(res.posterior_var[s_]) == 0) is True)
        ctx.tag("io")


def cases(tier):
    cs = []
    for sk in ("cat3", "two_tree", "mutation_above_root") + (("bal4", "internal_sample")
                                                              if tier == "thorough" else ()):
        for method in ("variational_gamma", "inside_outside", "maximization"):
            cs.append(Case(f"flow:{sk}:{method}", h_md_flow, dict(skel=sk, method=method)))
    for sk in ("cat3", "internal_sample", "mutation_above_root"):
        cs.append(Case(f"vg:{sk}", h_vg_results, dict(skel=sk), weight=4))
    for sk, G in (("cat3", 3), ("root_not_last", 3), ("tri", 4)) + \
            ((("bal4", 3), ("cat3", 4)) if tier == "thorough" else ()):
        for space in ("linear", "logarithmic"):
            for zf in (True, False):
                cs.append(Case(f"io:{sk}:G{G}:{space[:3]}:zf{int(zf)}", h_io_rows,
                               dict(skel=sk, G=G, space=space, zero_first=zf), weight=10))
    return cs


def run(tier, seed, t0):
    from symx import npx
    cs = cases(tier)
    outs = common.run_cases(cs)
    return common.finish(
        "C04", tier, seed, t0, outs,
        explanation="Data flow from the fit object to the metadata, executed on the real code with "
        "symbolic posteriors: (1) get_modified_ts + set_time_metadata on recording tables write "
        "row i = (posterior_mean[i], posterior_var[i]) for nodes and mutations, nothing for "
        "maximization; (2) VariationalGammaMethod.run hands over exactly node_posteriors()/"
        "mutation_posteriors(), which are (alpha+1)/beta and mean/beta, (time, 0) for samples, NaN "
        "for undefined mutations; (3) InsideOutsideMethod.run returns rows that are >= 0, sum to "
        "one, with mean/variance equal to the rows' moments over the timepoints.",
        functions=["tsdate.core.EstimationMethod.get_modified_ts/set_time_metadata",
                   "tsdate.core.VariationalGammaMethod.run", "tsdate.core.InsideOutsideMethod.run",
                   "tsdate.core.DiscreteTimeMethod.mean_var",
                   "tsdate.variational.ExpectationPropagation.node_moments/mutation_moments/"
                   "node_posteriors/mutation_posteriors/mutation_mapping",
                   "tsdate.node_time_class.NodeTimeValues.standardize/to_probabilities"],
        bounds={"inputs": sorted({c.kw["skel"] for c in cs}), "grid": "3-4"},
        stubs=["tskit tables + schema -> recording stubs (checks/mdstub.py)",
               "ExpectationPropagation constructor/infer replaced by a prepared instance with "
               "symbolic posteriors", "discrete-time stubs as C10"],
        assumptions=["JSON float round trip and tskit packset_metadata are exact",
                     "tables.sort() keeps each row's metadata with its row"],
        out_of_scope=["tskit codecs", "row order of mutations after tables.sort() (tskit)"],
        validated=npx.validate(),
        expect_tags=["written", "nothing", "nan-mutation", "finite-mutation", "io"],
    )


def replay(payload):
    """Public API: metadata vs fit posteriors on real inputs incl. non-time-ordered node ids."""
    import json
    import tsdate
    from symx import skeletons as SK
    bad = []
    for name in ("cat3", "root_not_last", "two_tree", "bal4", "mutation_above_root",
                 "local_root_mutation"):
        ts = SK.all_named()[name]()
        for method in ("variational_gamma", "inside_outside", "maximization"):
            kw = dict(mutation_rate=0.1, method=method, return_fit=True)
            if method != "variational_gamma":
                kw["population_size"] = 10
            try:
                out, fit = tsdate.date(ts, **kw)
            except AssertionError as e:
                if "rescaling intervals" not in repr(e):
                    raise
                out, fit = tsdate.date(ts, rescaling_intervals=0, **kw)   # few mutations (F3)
            if method == "maximization":
                if any(len(out.node(u).metadata) for u in range(out.num_nodes)
                       if isinstance(out.node(u).metadata, (dict, bytes))):
                    bad.append((name, method, "metadata written"))
                continue
            if method == "variational_gamma":
                post = fit.node_posteriors()
                mean, var = post["mean"], post["variance"]
            else:
                pg = np.asarray(fit.posterior_grid.grid_data, dtype=float)
                tp = np.asarray(fit.posterior_grid.timepoints, dtype=float)
                mean = np.full(ts.num_nodes, np.nan)
                var = np.full(ts.num_nodes, np.nan)
                for row, u in zip(pg, fit.posterior_grid.nonfixed_nodes):
                    if abs(row.sum() - 1) > 1e-9 or (row < 0).any():
                        bad.append((name, method, "row not a distribution", int(u)))
                    mean[u] = (row * tp).sum()
                    var[u] = (row * (tp - mean[u]) ** 2).sum()
                for s_ in ts.samples():
                    mean[s_], var[s_] = ts.nodes_time[s_], 0.0
            for u in range(out.num_nodes):
                md = out.node(u).metadata
                if not (abs(md["mn"] - mean[u]) <= 1e-9 * max(1, abs(mean[u]))
                        and abs(md["vr"] - var[u]) <= 1e-9 * max(1, abs(var[u]))):
                    bad.append((name, method, u, md, float(mean[u]), float(var[u])))
            if method == "variational_gamma":
                # mutation metadata equals the fit's mutation posteriors (NaN where the fit has
                # none, e.g. above a root)
                mp = fit.mutation_posteriors()

                def same(a, b):
                    a = float("nan") if a is None else float(a)
                    return (a != a and b != b) or abs(a - b) <= 1e-9 * max(1, abs(b))
                for m_ in range(out.num_mutations):
                    md = out.mutation(m_).metadata
                    if not isinstance(md, dict) or "mn" not in md:
                        bad.append((name, method, "mutation", m_, "no mn/vr", md))
                    elif not (same(md["mn"], mp["mean"][m_]) and same(md["vr"], mp["variance"][m_])):
                        bad.append((name, method, "mutation", m_, md, float(mp["mean"][m_]),
                                    float(mp["variance"][m_])))
    return bool(bad), str(bad[:4])
