"""Harness support for the variational (expectation propagation) code: symbolic EP state,
nondeterministic moment stubs, invariants J (message bookkeeping, C21) and I (proper, capped
posteriors, C05)."""
import math
from fractions import Fraction

import numpy as np

MOMENT_ARITY = {  # name -> number of returned values (first is logl for node updates)
    "moments": 5, "rootward_moments": 3, "leafward_moments": 3, "unphased_moments": 5,
    "twin_moments": 3, "sideways_moments": 3,
    "mutation_moments": 2, "mutation_rootward_moments": 2, "mutation_leafward_moments": 2,
    "mutation_unphased_moments": 3, "mutation_twin_moments": 3, "mutation_sideways_moments": 3,
    "mutation_edge_moments": 2, "mutation_block_moments": 3,
}


def moment_stub(name, n, calls=None):
    """'NaN-or-arbitrary finite' stand-in for a *_moments function: either every value is NaN
    (the skipped update) or fresh unconstrained reals.  A superset of what any implementation
    of the moments can return."""
    def stub(*args):
        from symx.dom import choice, fresh
        if calls is not None:
            calls.append((name, args))
        if choice(f"skip_{name}_"):
            return tuple([math.nan] * n)
        return tuple(fresh(f"{name}_r{i}_") for i in range(n))
    stub.__name__ = name
    return stub


def uf_log(x):
    from symx.dom import is_sym
    from symx.uf import uf
    return uf("log", (x,)) if is_sym(x) else math.log(x)


def uf_exp(x):
    from symx.dom import is_sym
    from symx.uf import uf
    return uf("exp", (x,), sign="pos") if is_sym(x) else math.exp(x)


def uf_lgamma(x):
    from symx.dom import is_sym
    from symx.uf import uf
    return uf("lgamma", (x,)) if is_sym(x) else math.lgamma(x)


class NPLog:
    """numpy proxy whose log/exp are real-valued uninterpreted functions (the variational code
    adds logs to other reals; the LogQ domain is for the discrete-time code only)."""

    def __init__(self, npx):
        self._npx = npx

    def __getattr__(self, k):
        return getattr(self._npx, k)

    def log(self, x):
        if isinstance(x, np.ndarray):
            out = np.empty(x.shape, dtype=object)
            out.ravel()[:] = [uf_log(v) for v in x.ravel()]
            return out
        return uf_log(x)

    def exp(self, x):
        if isinstance(x, np.ndarray):
            out = np.empty(x.shape, dtype=object)
            out.ravel()[:] = [uf_exp(v) for v in x.ravel()]
            return out
        return uf_exp(x)


def modules():
    from symx import load
    return (load.tsdate_module("variational"), load.tsdate_module("approx"),
            load.tsdate_module("hypergeo"))


def patched_ep(stub_moments=(), calls=None, real_np_log=False, more=()):
    """Context manager patching variational+approx; `stub_moments`: names replaced by stubs."""
    import contextlib
    from symx import load
    var, approx, hypergeo = modules()

    @contextlib.contextmanager
    def cm():
        extra = {approx: {"log": uf_log, "exp": uf_exp, "lgamma": uf_lgamma}}
        for nm in stub_moments:
            extra[approx][nm] = moment_stub(nm, MOMENT_ARITY[nm], calls)
        mods = [load.tsdate_module(m) for m in more]
        with load.patched(var, approx, *mods, extra=extra) as npx:
            approx.np = NPLog(npx)
            yield var, approx, npx
    return cm()


class State:
    """Symbolic EP state over a small graph."""

    def __init__(self, ctx, var, n, edges, fixed, blocks=(), fixed_time=None, init="I",
                 scale_one=False):
        from symx.dom import sym, Q
        self.n, self.edges, self.blocks = n, list(edges), list(blocks)
        self.fixed = list(fixed)
        ep = np.array([p for p, c in edges], dtype=np.int32)
        ec = np.array([c for p, c in edges], dtype=np.int32)
        bj = np.array([j for j, k in blocks], dtype=np.int32)
        bk = np.array([k for j, k in blocks], dtype=np.int32)
        self.ep, self.ec, self.bj, self.bk = ep, ec, bj, bk
        cons = np.empty((n, 2), dtype=object)
        for i in range(n):
            if fixed[i]:
                t = (fixed_time or {}).get(i, 0.0)
                if t == "sym":
                    t = sym(f"tfix{i}", "pos")
                cons[i, 0] = cons[i, 1] = t
            else:
                cons[i, 0], cons[i, 1] = 0.0, math.inf
        self.constraints = cons
        f = var.EPFactors(cons, ep, ec, bj, bk)
        zero = init == "zero"
        for arr, nm in ((f.node, "nd"), (f.edge, "ed"), (f.block, "bl")):
            for idx in np.ndindex(arr.shape):
                arr[idx] = 0.0 if zero else sym(f"{nm}{'_'.join(map(str, idx))}")
        for i in range(n):
            f.scale[i] = 1.0 if (zero or scale_one) else sym(f"sc{i}", "pos")
        # fixed nodes never receive messages (both-fixed edges are skipped, fixed-end rules
        # write only the free end, priors apply to unconstrained roots only): start them at 0
        for i in range(n):
            if fixed[i]:
                f.node[i] = 0.0
        for e, (p, c) in enumerate(edges):
            if fixed[p]:
                f.edge[e, 0] = 0.0
            if fixed[c]:
                f.edge[e, 1] = 0.0
        for b, (j, k) in enumerate(blocks):
            if fixed[j]:
                f.block[b, 0] = 0.0
            if fixed[k]:
                f.block[b, 1] = 0.0
        self.factors = f
        if zero:
            self.posterior = self.assemble(scaled=True)
        else:
            # Equivalent parametrisation of "any state satisfying J": the posterior of a free
            # node is a pair of plain symbols and its prior factor is DEFINED as
            # posterior/scale - (all other messages).  Keeps the path conditions low-degree.
            post = np.empty((n, 2), dtype=object)
            for i in range(n):
                for k in range(2):
                    if fixed[i]:
                        post[i, k] = 0.0
                        continue
                    post[i, k] = sym(f"{'al' if k == 0 else 'be'}{i}")
                    f.node[i, 0, k] = 0.0
            self.posterior = post
            rest = self.assemble(scaled=False)
            for i in range(n):
                if fixed[i]:
                    continue
                for k in range(2):
                    f.node[i, 0, k] = post[i, k] / f.scale[i] - rest[i, k]
        if init == "I":
            for i in range(n):
                if not fixed[i]:
                    ctx.assume(self.posterior[i, 0] > -1)
                    ctx.assume(self.posterior[i, 1] > 0)

    def assemble(self, scaled=True):
        """J: posterior[n] = scale[n] * (sum of all messages addressed to n)."""
        f = self.factors
        post = np.empty((self.n, 2), dtype=object)
        for i in range(self.n):
            for k in range(2):
                tot = f.node[i, 0, k] + f.node[i, 1, k]
                for e, (p, c) in enumerate(self.edges):
                    if p == i:
                        tot = tot + f.edge[e, 0, k]
                    if c == i:
                        tot = tot + f.edge[e, 1, k]
                for b, (j, kk) in enumerate(self.blocks):
                    if j == i:
                        tot = tot + f.block[b, 0, k]
                    if kk == i:
                        tot = tot + f.block[b, 1, k]
                post[i, k] = tot * f.scale[i] if scaled else tot
        return post


def prove_J(ctx, st, tag=""):
    want = st.assemble(scaled=True)
    items = []
    for i in range(st.n):
        if st.fixed[i]:
            continue
        for k in range(2):
            items.append((f"J{tag}:posterior[{i}][{k}]=scale*sum(messages)",
                          st.posterior[i, k] == want[i, k]))
        items.append((f"J{tag}:scale[{i}]>0", st.factors.scale[i] > 0))
    ctx.prove_all(items)


def prove_I(ctx, st, max_shape, nodes=None, tag=""):
    items = []
    for i in (nodes if nodes is not None else range(st.n)):
        if st.fixed[i]:
            continue
        a, b = st.posterior[i]
        items.append((f"I{tag}:alpha[{i}]>-1", a > -1))
        items.append((f"I{tag}:beta[{i}]>0", b > 0))
        items.append((f"I{tag}:shape[{i}]<=max_shape", a + 1 <= max_shape))
    ctx.prove_all(items)


def prove_fixed_untouched(ctx, st, before, tag=""):
    f = st.factors
    items = []
    for i in range(st.n):
        if not st.fixed[i]:
            continue
        for k in range(2):
            items.append((f"fixed{tag}:posterior[{i}][{k}]_unchanged",
                          st.posterior[i, k] == before[i, k]))
    ctx.prove_all(items)
