"""C27 - constraint enforcement is minimal and idempotent (util._constrain_ages)."""
from checks import common, constrain
from checks.common import Case


def cases(tier):
    cs = []
    skels = constrain.SKELS_QUICK if tier == "quick" else constrain.SKELS_ALL
    for sk in skels:
        cs.append(Case(f"max:{sk}", constrain.h_kernel,
                       dict(skel=sk, iters=0, which=["max"]), weight=2))
        for k in ([1, 2] if tier == "quick" else [1, 2, 3]):
            cs.append(Case(f"unchanged:{sk}:k={k}", constrain.h_kernel,
                           dict(skel=sk, iters=k, which=["same"], pre_satisfied=True)))
        cs.append(Case(f"unchanged:{sk}:k=0", constrain.h_kernel,
                       dict(skel=sk, iters=0, which=["same"], pre_satisfied=True)))
        cs.append(Case(f"idem:{sk}:0,0", constrain.h_kernel,
                       dict(skel=sk, iters=0, which=[], twice=0), weight=3))
        cs.append(Case(f"idem:{sk}:0,1", constrain.h_kernel,
                       dict(skel=sk, iters=0, which=[], twice=1), weight=4))
    cs.append(Case("fp-max:cherry:eps=sym", constrain.h_kernel_fp,
                   dict(skel="cherry", which=["max"], eps_value=None, qtimeout_ms=120000),
                   weight=20))
    fp = [("cat3", 1e-8), ("internal_sample", 1e-8)]
    if tier == "thorough":      # sized by a full thorough run of C01 (same kernel)
        fp += [("cat3", 1e-6), ("internal_sample", 1e-6), ("tri", 1e-8), ("tri", 1.0)]
    for sk, ev in fp:
        cs.append(Case(f"fp-max:{sk}:eps={ev}", constrain.h_kernel_fp,
                       dict(skel=sk, which=["max"], eps_value=ev, qtimeout_ms=120000,
                            case_timeout_s=2400 if tier == "thorough" else 420), weight=20))
    if tier == "thorough":
        from symx import skeletons as SK
        for sk in ["cat3", "bal4", "two_parents", "internal_sample"]:
            ts = SK.all_named()[sk]()
            for i, order in enumerate(SK.children_first_orders(ts, limit=24)):
                cs.append(Case(f"max:{sk}:order{i}", constrain.h_kernel,
                               dict(skel=sk, iters=0, which=["max"], order=list(order))))
        for sk in ["cherry", "cat3", "tri", "internal_sample", "two_parents"]:
            cs.append(Case(f"idem:{sk}:1,0", constrain.h_kernel,
                           dict(skel=sk, iters=1, which=[], twice=0), weight=30))
            cs.append(Case(f"idem:{sk}:1,1", constrain.h_kernel,
                           dict(skel=sk, iters=1, which=[], twice=1), weight=40))
    return cs


def run(tier, seed, t0):
    cs = cases(tier)
    outs = common.run_cases(cs)
    return common.finish(
        "C27", tier, seed, t0, outs,
        explanation="Bounded symbolic execution of the real util._constrain_ages (imported "
        "from the working tree with NUMBA_DISABLE_JIT=1) on symbolic node-time vectors; every "
        "path's obligations are discharged by z3 (QF_NRA for exact reals, QF_FP for the "
        "max_iterations=0 pass on IEEE doubles).",
        functions=["tsdate.util._constrain_ages"],
        bounds={"skeletons": sorted({c.kw["skel"] for c in cs}),
                "max_nodes": 7, "max_edges": 12,
                "least_squares_iterations": "0 (max rule, FP), 0-2 quick / 0-3 thorough "
                "(unchanged-if-satisfied), (0|1) then (0|1) (idempotence; first=1 thorough only)",
                "edge_orders": "tskit order; thorough: up to 24 children-first permutations",
                "values": "all real node times, all eps>0 (Q); all finite doubles >=0 and all "
                          "finite eps>0 (FP, iterations=0)"},
        stubs=["numpy allocation/predicates via symx.npx proxy (validated against NumPy each run)"],
        assumptions=["edge rows are in children-first order (tskit sortedness requirement)",
                     "fixed (sample) parent strictly older than fixed child in the input",
                     "Q domain: exact real arithmetic (no rounding); float literals lifted by "
                     "their shortest decimal representation",
                     "the Python semantics of the kernel source equal the numba-compiled "
                     "semantics (counterexamples are replayed on the compiled kernel)"],
        out_of_scope=["rounding in the least-squares phase (FP mul/div not decidable with the "
                      "installed solvers)", "graphs with more than 7 nodes"],
        validated=_validate(),
        expect_tags=["pushed"],
    )


def _validate():
    from symx import npx
    return npx.validate()


def replay(payload):
    return constrain.replay(payload)
