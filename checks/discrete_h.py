"""Harness support for the discrete-time methods (C10-C13, C38, C04, C06/C07 parts).

The real Likelihoods / LogLikelihoods / BeliefPropagation / NodeTimeValues classes are run on a
real tskit tree sequence with symbolic prior cells, symbolic timepoints, rate and eps.
scipy.stats.poisson is an uninterpreted positive function of (count, rate argument), shared
between the linear and logarithmic runs and the brute-force oracle."""
import itertools
import math
from fractions import Fraction

import numpy as np


class _Poisson:
    """Uninterpreted Poisson pmf: same (k, lambda) term => same positive symbol."""

    def _apply(self, k, lam, log):
        from symx.uf import uf
        from symx.dom import LogQ, Q

        def one(l):
            v = uf("pois", (int(k), Q.of(l)), sign="pos")
            return LogQ.of_q(v) if log else v

        if isinstance(lam, np.ndarray):
            out = np.empty(lam.shape, dtype=object)
            out.ravel()[:] = [one(l) for l in lam.ravel()]
            return out
        return one(lam)

    def pmf(self, k, lam):
        return self._apply(k, lam, False)

    def logpmf(self, k, lam):
        return self._apply(k, lam, True)


class ScipyStub:
    class stats:
        poisson = _Poisson()


def logsumexp_summary(X):
    """Verified summary of LogLikelihoods.logsumexp (see C10 'logsumexp' cases):
    log(sum_i exp x_i), with -inf entries contributing 0."""
    from symx.dom import LogQ, Q
    tot = Q(Fraction(0))
    for x in X:
        if isinstance(x, LogQ):
            tot = tot + x.q
        else:
            f = float(x)
            if f == -math.inf:
                continue
            if f == 0.0:
                tot = tot + 1
            else:
                raise NotImplementedError(f"logsumexp summary on float {f}")
    return LogQ.of_q(tot)


class MaxSummary:
    """np.max used purely as a normaliser -> 'some positive scalar' (fresh symbol).
    Sound because every result that depends on the normaliser must cancel it; a wrong
    normalisation falsifies the obligations.  Assumes the true maximum is positive."""

    def __init__(self, npx, log):
        self._npx = npx
        self._log = log

    def __getattr__(self, k):
        return getattr(self._npx, k)

    def max(self, a, *args, **kw):
        from symx.dom import fresh, LogQ, is_sym
        arr = np.asarray(a)
        if arr.dtype != object or not any(is_sym(v) for v in arr.ravel()):
            return np.max(a, *args, **kw)
        # a function of the (linear-space) array contents: the same array in a linear and a
        # logarithmic run gets the same normaliser symbol
        from symx import ctx as _c
        from symx.dom import Q
        key = tuple((v.q.key() if isinstance(v, LogQ) else
                     (Q.of(v).key() if not isinstance(v, float) or v == v and abs(v) != math.inf
                      else repr(v))) if not (isinstance(v, float) and self._log) else
                    (Q.of(0).key() if v == -math.inf else repr(v))
                    for v in arr.ravel())
        memo = _c.cur().uf_memo.setdefault("norm", {})
        s = memo.get(key)
        if s is None:
            s = memo[key] = fresh("norm_", "pos")
        return LogQ.of_q(s) if self._log else s


class Env:
    pass


def setup(ctx, ts, G, space, zero_first=True, tag="", max_summary=True, eps_sym=True,
          build="bp", node_name=None, patch_core=False, scale=None, mu_div=None):
    """Context manager: patched modules + symbolic priors/likelihood for `ts`.

    build: "bp" (Likelihoods + BeliefPropagation built here), "method" (only priors; the
    harness drives core.*Method.run), or "priors".  node_name maps a node id to the name used
    in its prior symbols (relational runs share symbols between renumbered inputs)."""
    import contextlib
    from symx import load
    from symx.dom import sym, Q

    discrete = load.tsdate_module("discrete")
    ntc = load.tsdate_module("node_time_class")
    core = load.tsdate_module("core")
    node_name = node_name or (lambda u: str(u))

    @contextlib.contextmanager
    def cm():
        mods = (discrete, ntc, core) if (patch_core or build == "method") else (discrete, ntc)
        with load.patched(*mods, extra={discrete: {"scipy": ScipyStub}}) as npx:
            env = Env()
            env.discrete, env.ntc, env.npx, env.core = discrete, ntc, npx, core
            log = space == ntc.LOG_GRID
            env.log = log
            if max_summary:
                discrete.np = MaxSummary(npx, log)
            tp = np.empty(G, dtype=object)
            tp[0] = 0.0
            acc = Q(Fraction(0))
            for g in range(1, G):
                acc = acc + sym(f"dt{g}", "pos")
                tp[g] = acc if scale is None else acc * scale
            env.timepoints = tp
            env.mu = sym("mu", "pos")
            env.eps = sym("eps", "pos") if eps_sym else 0
            if mu_div is not None:      # genome coordinates * c (C07): mu/c only
                env.mu = env.mu / mu_div
            if scale is not None:       # change of time unit (C06): t*c, eps*c, mu/c
                env.mu = env.mu / scale
                env.eps = env.eps * scale
            samples = [int(u) for u in ts.samples()]
            # same row order as prior.fill_priors: non-sample nodes by increasing input time
            datable = np.array([u for u in range(ts.num_nodes) if u not in samples],
                               dtype=np.int64)
            nonfixed = datable[np.argsort(ts.nodes_time[datable], kind="stable")]
            env.nonfixed = nonfixed
            pri = ntc.NodeTimeValues(ts.num_nodes, nonfixed, tp)
            cells = {}
            for u in nonfixed:
                row = np.empty(G, dtype=object)
                for g in range(G):
                    if g == 0 and zero_first:
                        row[g] = 0.0
                    else:
                        row[g] = sym(f"{tag}pr{node_name(int(u))}_{g}", "pos")
                    cells[(int(u), g)] = row[g]
                pri[u] = row
            env.prior_cells = cells
            env.priors = pri
            cls = discrete.LogLikelihoods if log else discrete.Likelihoods
            saved_lse = discrete.LogLikelihoods.__dict__["logsumexp"]
            discrete.LogLikelihoods.logsumexp = staticmethod(logsumexp_summary)
            try:
                if build == "bp":
                    lik = cls(ts, tp, env.mu, None, eps=env.eps, fixed_node_set=set(samples))
                    lik.precalculate_mutation_likelihoods()
                    env.lik = lik
                    env.bp = discrete.BeliefPropagation(pri, lik)
                yield env
            finally:
                discrete.LogLikelihoods.logsumexp = saved_lse
    return cm()


def make_method(env, ts, kind):
    """core.InsideOutsideMethod / MaximizationMethod instance without running __init__
    (which needs a population size and builds real priors)."""
    cls = {"inside_outside": env.core.InsideOutsideMethod,
           "maximization": env.core.MaximizationMethod}[kind]
    m = object.__new__(cls)
    m.ts = ts
    m.priors = env.priors
    m.mutation_rate = env.mu
    m.recombination_rate = None
    m.pbar = False
    m.provenance_params = None
    m.return_fit = True
    m.return_likelihood = True
    return m


def brute_force(ts, env):
    """Exact posterior weights of the discretised model by enumeration.
    Returns (W: {(u,g): Q}, Z: Q)."""
    from symx.dom import Q
    pois = ScipyStub.stats.poisson
    G = len(env.timepoints)
    tp = env.timepoints
    samples = set(int(u) for u in ts.samples())
    internal = [int(u) for u in env.nonfixed]
    mut_edges = env.lik.mut_edges if hasattr(env, "lik") else env.discrete.Likelihoods.get_mut_edges(ts)
    edges = [(e.id, e.parent, e.child, e.span) for e in ts.edges()]
    W = {(u, g): Q(Fraction(0)) for u in internal for g in range(G)}
    Z = Q(Fraction(0))
    for assign in itertools.product(range(G), repeat=len(internal)):
        idx = dict(zip(internal, assign))
        ok = True
        w = Q(Fraction(1))
        for eid, p, c, span in edges:
            gp = idx[p]
            gc = 0 if c in samples else idx[c]
            if gp < gc:
                ok = False
                break
            lam = (tp[gp] - tp[gc] + env.eps) * env.mu * span
            w = w * pois.pmf(int(mut_edges[eid]), lam)
        if not ok:
            continue
        for u in internal:
            w = w * env.prior_cells[(u, idx[u])]
            if isinstance(w, Q) and w.c == 0:
                break
        if isinstance(w, Q) and w.c == 0:
            continue
        Z = Z + w
        for u in internal:
            W[(u, idx[u])] = W[(u, idx[u])] + w
    return W, Z


def as_lin(x):
    """cell value in linear space (Q) from Q / LogQ / float."""
    from symx.dom import LogQ, Q
    if isinstance(x, LogQ):
        return x.q
    if isinstance(x, Q):
        return x
    return x


def to_lin(x, log):
    """cell of a (possibly logarithmic) grid as a linear-space value."""
    from symx.dom import LogQ, Q
    if isinstance(x, LogQ):
        return x.q
    if isinstance(x, Q):
        return x
    f = float(x)
    if log:
        return Q.of(0) if f == -math.inf else (Q.of(1) if f == 0.0 else Q.of(math.exp(f)))
    return Q.of(f)


class LinOps:
    """Linear-space reference primitives over the likelihood object's index tables (used
    by reference implementations in harnesses; values are Q / floats)."""

    @staticmethod
    def val(x):
        from symx.dom import LogQ
        return x.q if isinstance(x, LogQ) else x

    @staticmethod
    def row(r):
        out = np.empty(len(r), dtype=object)
        out[:] = [to_lin(x, True) if not isinstance(x, float) or x in (-math.inf,)
                  else x for x in r]
        from symx.dom import LogQ
        if any(isinstance(x, LogQ) for x in r) or any(isinstance(x, float) and x == -math.inf for x in r):
            out[:] = [to_lin(x, True) for x in r]
        else:
            out[:] = [to_lin(x, False) for x in r]
        return out

    @staticmethod
    def scale(frac, arr):
        from symx.uf import sym_pow
        out = np.empty(len(arr), dtype=object)
        out[:] = [v if float(frac) == 1.0 else sym_pow(v, frac) for v in arr]
        return out

    @staticmethod
    def lower(lik, arr):
        return arr[lik.to_lower_tri]

    @staticmethod
    def upper(lik, arr):
        return arr[lik.to_upper_tri]

    @staticmethod
    def _liks(lik, e):
        L = lik.get_mut_lik_lower_tri(e)
        return LinOps.row(L)

    @staticmethod
    def inside(lik, arr, e):
        return np.add.reduceat(arr * LinOps._liks(lik, e), lik.row_indices[0])

    @staticmethod
    def outside(lik, arr, e):
        L = LinOps._liks(lik, e)[np.concatenate(lik.row_indices)]
        return np.add.reduceat(arr * L, lik.col_indices)

    @staticmethod
    def mul(a, b):
        return a * b

    @staticmethod
    def div(a, d):
        return a / d

    @staticmethod
    def div0(a, b):
        out = np.empty(len(a), dtype=object)
        vals = []
        for x, y in zip(a, b):
            r = x / y
            if isinstance(r, float) and r != r:
                r = 0.0
            vals.append(r)
        out[:] = vals
        return out
