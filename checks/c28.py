"""C28 - preprocessing removes only data-free regions (interval logic and call data flow)."""
import numpy as np

from checks import common
from checks.common import Case


class _Tables:
    def __init__(self, log, sites, L):
        self.log = log
        self.sequence_length = L

        class S:
            position = sites
        self.sites = S()

        class N:
            num_rows = 7
        self.nodes = N()

    def delete_intervals(self, iv, **kw):
        self.log.append(("delete_intervals", [list(x) for x in iv], kw))

    def simplify(self, *a, **kw):
        self.log.append(("simplify", a, kw))

    def sort(self):
        self.log.append(("sort", None, None))

    def tree_sequence(self):
        self.log.append(("tree_sequence", None, None))
        return _TS(self.log, self.sites.position, self.sequence_length, "out")

    def dump_tables(self):
        return self


class _TS:
    def __init__(self, log, sites, L, name="in"):
        self.log, self._sites, self._L, self.name = log, sites, L, name
        self.num_sites = len(sites)
        self.num_nodes = 7

    def dump_tables(self):
        self.log.append(("dump_tables", self.name, None))
        return _Tables(self.log, self._sites, self._L)


def _pick(options, name):
    from symx.dom import choice
    i = 0
    while i < len(options) - 1 and choice(f"{name}_{i}_"):
        i += 1
    return options[i]


def h_intervals(ctx, nsites, user_intervals=False):
    from symx import load
    from symx.dom import sym, Q, Or, And
    util = load.tsdate_module("util")
    sites = np.empty(nsites, dtype=object)
    acc = Q.of(0)
    for i in range(nsites):
        acc = acc + sym(f"sgap{i}", "nonneg" if i == 0 else "pos")
        sites[i] = acc
    L = acc + sym("tail", "pos")
    log = []
    erase = _pick([None, True, False], "erase")
    mg = _pick([None, "sym"], "mingap")
    mg = sym("min_gap", "pos") if mg == "sym" else mg
    split = _pick([None, True, False], "split")
    record = _pick([None, True, False], "record")
    fp, fi, fs = (_pick([False, True], n) for n in ("fpop", "find", "fsite"))
    kw = dict(minimum_gap=mg, erase_flanks=erase, split_disjoint=split, record_provenance=record,
              filter_populations=fp, filter_individuals=fi, filter_sites=fs)
    user = None
    if user_intervals:
        user = [[sym("ua", "nonneg"), sym("ub", "pos")]]
        kw["delete_intervals"] = user
    splits, provs = [], []
    saved = (util.split_disjoint_nodes, util.provenance.record_provenance)
    util.split_disjoint_nodes = lambda ts, **k: (splits.append(k), ts)[1]
    util.provenance.record_provenance = lambda tables, cmd, **k: provs.append((cmd, k))
    try:
        with load.patched(util):
            try:
                out = util.preprocess_ts(_TS(log, sites, L), **kw)
                outcome = "returned"
            except ValueError:
                outcome = "ValueError"
            except Exception as e:
                ctx.fail("no-exception", detail={"exception": repr(e)[:300]})
                return
    finally:
        util.split_disjoint_nodes, util.provenance.record_provenance = saved
    conflict = user_intervals and (mg is not None or erase is not None)
    if conflict or nsites == 0 and not user_intervals:
        ctx.prove("pre:conflicting_or_siteless_input_rejected", outcome == "ValueError")
        ctx.prove("pre:nothing_touched_on_rejection",
                  not [x for x in log if x[0] in ("delete_intervals", "simplify")])
        ctx.tag("rejected")
        return
    ctx.prove("pre:returns", outcome == "returned")
    if outcome != "returned":
        return
    dels = [x for x in log if x[0] == "delete_intervals"]
    simp = [x for x in log if x[0] == "simplify"]
    ctx.prove("pre:simplify_called_once", len(simp) == 1)
    if simp:
        a, k = simp[0][1], simp[0][2]
        ctx.prove("pre:simplify_without_sample_list", a == () and "samples" not in k)
        ctx.prove("pre:simplify_filter_flags_as_given",
                  k.get("filter_populations") is fp and k.get("filter_individuals") is fi
                  and k.get("filter_sites") is fs and k.get("record_provenance") is False)
    ctx.prove("pre:at_most_one_delete_call", len(dels) <= 1)
    ivs = dels[0][1] if dels else []
    if dels:
        ctx.prove("pre:delete_without_simplify_or_provenance",
                  dels[0][2].get("simplify") is False and dels[0][2].get("record_provenance") is False)
    if user_intervals:
        ctx.prove("pre:user_intervals_passed_unchanged",
                  len(ivs) == 1 and ivs[0][0] is user[0][0] and ivs[0][1] is user[0][1])
    else:
        eff_erase = True if erase is None else erase
        gap = Q.of(1000000) if mg is None else mg
        for j, (a, b) in enumerate(ivs):
            a, b = Q.of(a), Q.of(b)
            ctx.prove(f"pre:interval[{j}]:non_empty_within_sequence", (a < b) & (a >= 0) & (b <= L)
                      if not isinstance(a < b, bool) else bool(a < b))
            for s in range(nsites):
                ctx.prove(f"pre:interval[{j}]:contains_no_site[{s}]",
                          Or(Q.of(sites[s]) < a, Q.of(sites[s]) >= b))
            regions = []
            if eff_erase:
                regions.append(b <= sites[0])                       # left flank
                regions.append(a > sites[nsites - 1])               # right flank
            else:
                regions.append(False)
            for s in range(nsites - 1):
                regions.append(And(a > sites[s], b < sites[s + 1],
                                   Q.of(sites[s + 1]) - sites[s] >= gap))
            ctx.prove(f"pre:interval[{j}]:inside_a_flank_or_a_long_gap", Or(*regions))
            if j + 1 < len(ivs):
                ctx.prove(f"pre:interval[{j}]:sorted_and_disjoint", b <= Q.of(ivs[j + 1][0]))
    eff_split = True if split is None else split
    ctx.prove("pre:split_disjoint_iff_requested", (len(splits) == 1) == eff_split)
    if splits:
        ctx.prove("pre:inner_split_does_not_record_provenance",
                  splits[0].get("record_provenance") is False)
    eff_rec = True if record is None else record
    ctx.prove("pre:provenance_once_iff_requested", (len(provs) == 1) == eff_rec)
    if provs:
        ctx.prove("pre:provenance_command", provs[0][0] == "preprocess_ts")
    ctx.prove("pre:never_writes_node_times", not [x for x in log if x[0] == "set"])
    ctx.tag("intervals" if ivs else "no-intervals")
    if user_intervals:
        ctx.tag("user")


def cases(tier):
    cs = []
    for n in ((1, 2, 3) if tier == "quick" else (1, 2, 3, 4)):
        cs.append(Case(f"intervals:n{n}", h_intervals, dict(nsites=n), shard_depth=4, weight=n * 10))
    cs.append(Case("intervals:n0", h_intervals, dict(nsites=0)))
    cs.append(Case("user_intervals:n2", h_intervals, dict(nsites=2, user_intervals=True),
                   shard_depth=2))
    return cs


def run(tier, seed, t0):
    from symx import npx
    cs = cases(tier)
    outs = common.run_cases(cs)
    return common.finish(
        "C28", tier, seed, t0, outs,
        explanation="The real util.preprocess_ts is executed on a recording tree-sequence/table stub "
        "with symbolic site positions, sequence length and minimum_gap, and solver-chosen "
        "erase_flanks / split_disjoint / record_provenance / filter flags / user intervals.  z3 "
        "proves on every path: the intervals handed to tables.delete_intervals are non-empty, "
        "sorted, disjoint, contain no site, and each lies inside a flank (only if erase_flanks) or "
        "strictly inside a gap of length >= minimum_gap; user intervals are passed unchanged; "
        "simplify is called once with the filter flags as given and never with a sample list; "
        "node times are never written; split_disjoint and provenance happen exactly when asked; "
        "conflicting options / no sites raise ValueError before anything is touched.",
        functions=["tsdate.util.preprocess_ts"],
        bounds={"sites": "0-3 quick, 0-4 thorough", "options": "all combinations listed above"},
        stubs=["tskit TreeSequence/TableCollection -> recording stub", "split_disjoint_nodes, "
               "provenance.record_provenance -> recorders (their own behaviour: C29, C33)"],
        assumptions=["tskit contract: delete_intervals + simplify without a sample list keep "
                     "samples, their order and the genotypes at kept sites"],
        out_of_scope=["genotype preservation itself (tskit C code)", "no-gap ancestry after "
                      "split_disjoint (C29)"],
        validated=npx.validate(),
        expect_tags=["intervals", "no-intervals", "rejected", "user"],
    )


def replay(payload):
    """Public API on a real input at the model's coordinates: genotypes at kept sites, samples,
    node times and removed regions."""
    import msprime
    import tsdate
    kw = payload["case_kw"]
    m = common.model_floats(payload["model"])
    bad = []
    ts = msprime.sim_ancestry(4, sequence_length=1000, recombination_rate=0.002, random_seed=3)
    n = max(kw["nsites"], 1)
    pos, acc = [], 0.0
    for i in range(n):
        acc += max(float(m.get(f"sgap{i}", 40.0 * (i + 1))), 1.0)
        pos.append(min(round(acc), 990 - (n - i)))
    pos = sorted(set(pos))
    t = ts.dump_tables()
    for i, p in enumerate(pos):
        s = t.sites.add_row(float(p), "0")
        t.mutations.add_row(s, int(ts.samples()[i % ts.num_samples]), "1")
    t.sort()
    t.build_index()
    t.compute_mutation_parents()
    ts = t.tree_sequence()
    for mg in (float(m.get("min_gap", 50.0)), 30.0):
        for erase in (True, False):
            out = tsdate.preprocess_ts(ts, minimum_gap=max(mg, 3.0), erase_flanks=erase,
                                       split_disjoint=False)
            if not np.array_equal(out.genotype_matrix(), ts.genotype_matrix()):
                bad.append((mg, erase, "genotypes changed"))
            if list(out.sites_position) != list(ts.sites_position):
                bad.append((mg, erase, "sites changed"))
            for tr in out.trees():
                if tr.num_edges == 0:
                    l, r = tr.interval
                    inside = [p for p in pos if l <= p < r]
                    if inside:
                        bad.append((mg, erase, "site inside removed region", l, r))
                    left_flank = r <= pos[0]
                    right_flank = l > pos[-1]
                    in_gap = any(a < l and r < b and b - a >= max(mg, 3.0)
                                 for a, b in zip(pos, pos[1:]))
                    if not ((erase and (left_flank or right_flank)) or in_gap):
                        bad.append((mg, erase, "removed region not allowed", l, r))
    # filter flags: with filter_sites / filter_populations / filter_individuals = False nothing
    # outside the deleted intervals may be dropped (mutation-free sites, unused rows)
    t = ts.dump_tables()
    t.sites.add_row(float(pos[0]) + 0.5, "0")          # mutation-free sites inside kept regions
    t.sites.add_row(float(pos[-1]) - 0.5 if len(pos) > 1 else float(pos[0]) + 0.25, "0")
    t.populations.add_row(metadata={"name": "unused", "description": None})
    t.individuals.add_row()
    t.sort()
    t.build_index()
    t.compute_mutation_parents()
    ts2 = t.tree_sequence()
    for erase in (True, False):
        for mg in (3.0, 1e9):
            out = tsdate.preprocess_ts(ts2, minimum_gap=mg, erase_flanks=erase, split_disjoint=False,
                                       filter_sites=False, filter_populations=False,
                                       filter_individuals=False)
            gone = [p for p in ts2.sites_position if p not in set(out.sites_position)]
            removed = [tr.interval for tr in out.trees() if tr.num_edges == 0]
            lost = [p for p in gone if not any(l <= p < r for l, r in removed)]
            if lost:
                bad.append((mg, erase, "filter_sites=False but sites outside deleted intervals dropped", lost))
            if out.num_populations != ts2.num_populations or out.num_individuals != ts2.num_individuals:
                bad.append((mg, erase, "filter_populations/individuals=False but rows dropped"))
    return bool(bad), str(bad[:4])
