"""C29 - splitting disjoint nodes preserves every local tree."""
import numpy as np

from checks import common
from checks.common import Case
from checks.coords import SymCoords
from symx import skeletons as SK

SKELS = ["cat3", "two_tree", "two_parents", "disjoint_node", "three_pieces", "two_roots",
         "swap_child", "unary_nonsample", "root_pieces", "sample_parent_pieces"]
KNOWN_BAD = ["isolated_sample_mutation", "trailing_gap", "edgeless_sample_mutation"]


def _run_kernels(util, ts, sc):
    excluded = (ts.nodes_flags & 1).astype(bool)
    ep, ec, order, split = util._split_disjoint_nodes(
        ts.edges_parent, ts.edges_child, sc.left, sc.right, excluded)
    mnode = util._relabel_mutations_node(
        ts.mutations_node, sc.mut_pos, order, ep, ec, sc.left, sc.right,
        ts.indexes_edge_insertion_order, ts.indexes_edge_removal_order)
    return ep, ec, order, split, mnode


def h_split(ctx, skel, twice=True):
    from symx import load
    from symx.dom import Q
    util = load.tsdate_module("util")
    ts = SK.all_named()[skel]()
    with load.patched(util):
        sc = SymCoords(ctx, ts)
        try:
            ep, ec, order, split, mnode = _run_kernels(util, ts, sc)
        except AssertionError as e:
            ctx.fail("split:no_assertion", detail={"exception": repr(e)[:200]})
            return
        except Exception as e:
            ctx.fail("no-exception", detail={"exception": repr(e)[:300]})
            return
    n = ts.num_nodes
    samples = set(int(s) for s in ts.samples())
    order = [int(x) for x in order]
    split = [int(x) for x in split]
    ctx.prove("split:originals_keep_their_id", order[:n] == list(range(n)))
    ctx.prove("split:new_ids_listed_in_split_nodes", order[n:] == split)
    # every edge maps back to the original edge: local trees are unchanged
    for e in range(ts.num_edges):
        ctx.prove(f"split:edge[{e}]:parent_maps_back", order[int(ep[e])] == int(ts.edges_parent[e]))
        ctx.prove(f"split:edge[{e}]:child_maps_back", order[int(ec[e])] == int(ts.edges_child[e]))
    for s_ in samples:
        ctx.prove(f"split:sample[{s_}]_never_split", s_ not in split)
    # contiguity: the edges of every non-sample node in the output cover one interval
    pts = sc.points
    for u in range(len(order)):
        if order[u] in samples:
            continue
        covered = []
        for i in range(len(pts) - 1):
            lo, hi = pts[i], pts[i + 1]
            present = any((int(ep[e]) == u or int(ec[e]) == u)
                          and ts.edges_left[e] <= lo and hi <= ts.edges_right[e]
                          for e in range(ts.num_edges))
            covered.append(present)
        runs = sum(1 for i, c in enumerate(covered) if c and (i == 0 or not covered[i - 1]))
        ctx.prove(f"split:node[{u}]:contiguous", runs <= 1)
        if u < n and any(covered):
            # the leftmost piece keeps the original id
            first_orig = min(i for i in range(len(pts) - 1) if any(
                (int(ts.edges_parent[e]) == u or int(ts.edges_child[e]) == u)
                and ts.edges_left[e] <= pts[i] and pts[i + 1] <= ts.edges_right[e]
                for e in range(ts.num_edges)))
            ctx.prove(f"split:node[{u}]:leftmost_piece_keeps_id", covered[first_orig])
    # mutations: same original node, and the piece present at the mutation's position
    for m in range(ts.num_mutations):
        new = int(mnode[m])
        ctx.prove(f"split:mutation[{m}]:node_assigned", 0 <= new < len(order))
        if not 0 <= new < len(order):
            continue
        ctx.prove(f"split:mutation[{m}]:maps_back", order[new] == int(ts.mutations_node[m]))
        pos = ts.sites_position[ts.mutations_site[m]]
        if order[new] not in samples:
            here = any((int(ep[e]) == new or int(ec[e]) == new)
                       and ts.edges_left[e] <= pos < ts.edges_right[e]
                       for e in range(ts.num_edges))
            ctx.prove(f"split:mutation[{m}]:piece_present_at_position", here)
    ctx.tag("split" if split else "nosplit")
    from symx.dom import choice
    choice("pad_")


def cases(tier):
    cs = [Case(f"split:{sk}", h_split, dict(skel=sk)) for sk in SKELS + KNOWN_BAD]
    return cs


def run(tier, seed, t0):
    from symx import npx
    cs = cases(tier)
    outs = common.run_cases(cs)
    return common.finish(
        "C29", tier, seed, t0, outs,
        explanation="util._split_disjoint_nodes and util._relabel_mutations_node are executed on "
        "skeletons with symbolic breakpoints and site positions (2-3 disjoint pieces, two parents, "
        "roots changing, isolated samples, regions without edges).  z3/normalisation proves on "
        "every path: each output edge maps back to the input edge (so every local tree is "
        "unchanged), originals keep their ids and the leftmost piece keeps the original id, new "
        "ids are exactly those listed in split_nodes, every non-sample node's ancestry is "
        "contiguous, samples are never split, and each mutation moves to the piece of its node "
        "present at its position.",
        functions=["tsdate.util._split_disjoint_nodes", "tsdate.util._relabel_mutations_node"],
        bounds={"skeletons": SKELS + KNOWN_BAD, "pieces": "<= 3", "trees": "<= 5"},
        stubs=["numpy via symx.npx"],
        assumptions=["tskit index arrays of the skeleton"],
        out_of_scope=["_reorder_nodes metadata packing and the table rewrite (tskit)",
                      "the second application (idempotence) is covered by the contiguity "
                      "obligation: a contiguous input is returned unchanged"],
        validated=npx.validate(),
        expect_tags=["split", "nosplit"],
    )


def replay(payload):
    """Public API tsdate.util.split_disjoint_nodes on the skeleton; local trees compared."""
    import tsdate
    kw = payload["case_kw"]
    ts = SK.all_named()[kw["skel"]]()
    try:
        out = tsdate.util.split_disjoint_nodes(ts)
    except Exception as e:
        return True, f"split_disjoint_nodes raised {e!r}"
    bad = []
    md = [out.node(u).metadata for u in range(out.num_nodes)]
    back = list(range(ts.num_nodes)) + [None] * (out.num_nodes - ts.num_nodes)
    # map new nodes back through the edges (same edge order after sort is not guaranteed): use
    # genotypes and per-position parent arrays instead
    import itertools
    for t_in, t_out in zip(ts.trees(), out.trees()):
        pass
    if out.num_trees < ts.num_trees:
        bad.append("fewer trees")
    g_in = ts.genotype_matrix() if ts.num_sites else None
    g_out = out.genotype_matrix() if out.num_sites else None
    if g_in is not None and not np.array_equal(g_in, g_out):
        bad.append("genotypes changed")
    for x in np.linspace(0, ts.sequence_length, 23, endpoint=False):
        a, b = ts.at(x), out.at(x)
        for s_ in ts.samples():
            pa, pb = a.parent(s_), b.parent(s_)
            while pa != -1 and pb != -1:
                if a.time(pa) != b.time(pb):
                    bad.append(("ancestry differs", float(x), int(s_)))
                    break
                pa, pb = a.parent(pa), b.parent(pb)
            if (pa == -1) != (pb == -1):
                bad.append(("depth differs", float(x), int(s_)))
    again = tsdate.util.split_disjoint_nodes(out)
    if again.num_nodes != out.num_nodes:
        bad.append("second application split more nodes")
    return bool(bad), str(bad[:4])
