"""Harnesses over util._constrain_ages / util.constrain_ages shared by C01, C03, C27.

The real kernel is executed on symbolic node times (Q: exact reals, FP: IEEE doubles with
max_iterations=0).  Obligations are written once, generically, so that the replay can
evaluate the same expressions on the doubles returned by the JIT-compiled kernel."""
import itertools
import json

import numpy as np

from symx import skeletons as SK

SKELS_QUICK = ["cherry", "cat3", "bal4", "tri", "internal_sample", "historical_leaf",
               "two_tree", "two_parents", "root_not_last"]
SKELS_ALL = SKELS_QUICK + ["cat4", "star4", "disjoint_node", "two_roots", "unary_sample",
                           "unary_nonsample", "diploid_two_tree"]
_SMALL = {"cherry", "cat3", "tri", "internal_sample", "historical_leaf", "root_not_last",
          "unary_sample", "star4", "two_roots"}
_MID = {"two_parents", "unary_nonsample"}


def iteration_bounds(skel, tier):
    """Least-squares iteration counts whose path space was measured to be exhaustible in
    the tier's budget (paths grow ~ 10x per iteration per 2 edges)."""
    if skel in _SMALL:
        return [0, 1, 2] if tier == "quick" else [0, 1, 2, 3]
    if skel in _MID:
        return [0, 1] if tier == "quick" else [0, 1, 2]
    return [0] if tier == "quick" else [0, 1]


def structure(skel, order=None):
    ts = SK.all_named()[skel]()
    ep = ts.edges_parent.copy()
    ec = ts.edges_child.copy()
    if order is not None:
        ep, ec = ep[list(order)], ec[list(order)]
    fixed = (ts.nodes_flags & 1).astype(bool)
    return ts, ep, ec, fixed


def children_of(ep, ec, n):
    ch = {u: [] for u in range(n)}
    for p, c in zip(ep, ec):
        if int(c) not in ch[int(p)]:
            ch[int(p)].append(int(c))
    return ch


# ------------------------------------------------------------------ obligations (generic)

def obligations(which, ep, ec, fixed, tin, out, eps, iters, OR):
    """Yield (name, claim).  Works for Q (claims are SymBool) and tolerant floats."""
    n = len(tin)
    ch = children_of(ep, ec, n)
    if "edges" in which:          # C01: every branch at least eps long
        for p, c in sorted(set(zip(map(int, ep), map(int, ec)))):
            yield f"edge[{p}>{c}]>=eps", out[p] - out[c] >= eps
            yield f"edge[{p}>{c}]>0", out[p] > out[c]
    if "max" in which:            # C27: out[u] = max(in[u], max_c out[c]+eps) (iters == 0)
        for u in range(n):
            yield f"max[{u}]:ge_in", out[u] >= tin[u]
            alts = [out[u] == tin[u]]
            for c in ch[u]:
                yield f"max[{u}]:ge_child{c}", out[u] >= out[c] + eps
                alts.append(out[u] == out[c] + eps)
            yield f"max[{u}]:attained", OR(*alts)
    if "same" in which:           # unchanged (precondition: all constraints strictly satisfied)
        for u in range(n):
            yield f"unchanged[{u}]", out[u] == tin[u]
    if "fixed" in which:          # C03: samples keep their time except the minimal push
        for u in range(n):
            if not fixed[u]:
                continue
            if not ch[u]:
                yield f"sample[{u}]:kept", out[u] == tin[u]
            else:
                yield f"sample[{u}]:ge_in", out[u] >= tin[u]
                alts = [out[u] == tin[u]]
                for c in ch[u]:
                    yield f"sample[{u}]:ge_child{c}+eps", out[u] >= out[c] + eps
                    alts.append(out[u] == out[c] + eps)
                yield f"sample[{u}]:minimal_push", OR(*alts)


# ------------------------------------------------------------------ symbolic harnesses

def _sym_inputs(ctx, ts, fixed, valid_samples=True, nonneg=False):
    from symx.dom import sym
    n = ts.num_nodes
    t = np.empty(n, dtype=object)
    for i in range(n):
        t[i] = sym(f"t{i}", "nonneg" if nonneg else None)
    eps = sym("eps", "pos")
    if valid_samples:
        # the input is a valid tree sequence: a fixed parent is strictly older than a fixed
        # child, and fixed nodes carry their (non-negative) input times
        for p, c in set(zip(map(int, ts.edges_parent), map(int, ts.edges_child))):
            if fixed[p] and fixed[c]:
                ctx.assume(t[p] > t[c])
        for i in range(n):
            if fixed[i]:
                ctx.assume(t[i] >= 0)
    return t, eps


def h_kernel(ctx, skel, iters, which, order=None, pre_satisfied=False, twice=None,
             valid_samples=True):
    """Run the real util._constrain_ages symbolically (Q domain)."""
    from symx import load
    from symx.dom import Or
    util = load.tsdate_module("util")
    ts, ep, ec, fixed = structure(skel, order)
    t, eps = _sym_inputs(ctx, ts, fixed, valid_samples)
    if pre_satisfied:
        for p, c in set(zip(map(int, ep), map(int, ec))):
            ctx.assume(t[p] - t[c] > eps)
    tin = t.copy()
    with load.patched(util):
        try:
            out = util._constrain_ages(t, fixed, ep, ec, eps, iters)
            if twice is not None:
                first = out
                out = util._constrain_ages(first.copy(), fixed, ep, ec, eps, twice)
        except Exception as e:
            ctx.fail("no-exception", detail={"exception": repr(e)})
            return
    for i in range(len(tin)):   # the kernel must not write its input
        ctx.prove(f"input_untouched[{i}]", t[i] == tin[i])
    if twice is not None:
        for u in range(len(tin)):
            ctx.prove(f"idempotent[{u}]", out[u] == first[u])
        return
    for p, c in zip(ep, ec):
        if (out[c] + eps == out[p]) is True:
            ctx.tag("pushed")
    for name, claim in obligations(which, ep, ec, fixed, tin, out, eps, iters, Or):
        ctx.prove(name, claim)


def h_kernel_fp(ctx, skel, which, eps_value=None, order=None):
    """Forced pass only (max_iterations=0) on IEEE doubles (z3 Float64)."""
    import z3
    from symx import load
    from symx.dom import FP, SymBool, Or
    util = load.tsdate_module("util")
    ts, ep, ec, fixed = structure(skel, order)
    n = ts.num_nodes
    t = np.empty(n, dtype=object)
    for i in range(n):
        t[i] = FP.var(f"t{i}")
        ctx.assume(t[i].isfinite())
        ctx.assume(t[i] >= 0.0)
        ctx.assume(t[i] <= 1e300)     # stated bound: far from overflow (times up to 1e300)
    if eps_value is None:
        eps = FP.var("eps")
        ctx.assume(eps.isfinite())
        ctx.assume(eps > 0.0)
        ctx.assume(eps <= 1e300)
    else:
        eps = FP.of(eps_value)
    tin = t.copy()
    with load.patched(util):
        try:
            out = util._constrain_ages(t, fixed, ep, ec, eps, 0)
        except Exception as e:
            ctx.fail("no-exception", detail={"exception": repr(e)})
            return
    ch = children_of(ep, ec, n)
    for u in range(n):
        ctx.prove(f"fp:not_nan[{u}]", SymBool(z3.Not(z3.fpIsNaN(out[u].z))))
        if "edges" in which:
            for c in ch[u]:
                s = out[c] + eps
                # (strictly older than the child whenever fl(c+eps) > c follows by transitivity)
                ctx.prove(f"fp:edge[{u}>{c}]>=fl(c+eps)", out[u] >= s)
                # strictly older on doubles, even when eps is absorbed by rounding
                ctx.prove(f"fp:edge[{u}>{c}]:strictly_older", out[u] > out[c])
        if "max" in which:
            ctx.prove(f"fp:max[{u}]:ge_in", out[u] >= tin[u])
            alts = [out[u] == tin[u]] + [out[u] == out[c] + eps for c in ch[u]]
            # when eps is absorbed (fl(c+eps) == c) the parent sits on the next double above c
            for c in ch[u]:
                succ = z3.And((out[c] + eps == out[c]).z,
                              z3.fpToIEEEBV(out[u].z) == z3.fpToIEEEBV(out[c].z) + 1)
                alts.append(SymBool(succ))
            ctx.prove(f"fp:max[{u}]:attained", Or(*alts))
        if "fixed" in which and fixed[u] and not ch[u]:
            ctx.prove(f"fp:sample[{u}]:kept", out[u] == tin[u])


# ------------------------------------------------------------------ replay (compiled code)

def replay(payload):
    """Re-run the JIT-compiled kernel on the model's doubles and re-evaluate the obligation
    with tolerant comparisons.  Returns (reproduced, info)."""
    import tsdate.util as util
    from symx.tolfloat import TF, tf_array
    case = payload["case_kw"]
    skel, iters = case["skel"], case.get("iters", 0)
    order = case.get("order")
    which = case.get("which", ["edges"])
    ts, ep, ec, fixed = structure(skel, order)
    m = {k: (v["float"] if isinstance(v, dict) else v) for k, v in payload["model"].items()}
    t = np.array([float(m.get(f"t{i}", 0.0)) for i in range(ts.num_nodes)])
    eps = float(m.get("eps", case.get("eps_value") or 1e-8))
    name = payload["obligation"]
    try:
        out = util._constrain_ages(t.copy(), fixed, ep, ec, eps, iters)
        if case.get("twice") is not None:
            first = out
            out = util._constrain_ages(first.copy(), fixed, ep, ec, eps, case["twice"])
    except Exception as e:
        return (name == "no-exception"), f"exception {e!r}"
    if name == "no-exception":
        return False, "no exception on compiled code"
    if case.get("twice") is not None:
        bad = [u for u in range(len(t)) if not (TF(out[u]) == TF(first[u]))]
        return bool(bad), f"idempotence differs at {bad}: {first} -> {out}"
    if name.startswith("fp:"):
        # exact double semantics, no tolerance
        ch = children_of(ep, ec, len(t))
        for u in range(len(t)):
            for c in ch[u]:
                s = out[c] + eps
                if name == f"fp:edge[{u}>{c}]>=fl(c+eps)" and not (out[u] >= s):
                    return True, f"out[{u}]={out[u]!r} < fl(out[{c}]+eps)={s!r}"
                if name == f"fp:edge[{u}>{c}]:strictly_older" and not (out[u] > out[c]):
                    return True, f"out[{u}]={out[u]!r} not older than out[{c}]={out[c]!r} (eps={eps!r})"
            if name == f"fp:not_nan[{u}]" and out[u] != out[u]:
                return True, "nan"
            if name == f"fp:max[{u}]:ge_in" and not out[u] >= t[u]:
                return True, f"out[{u}]={out[u]!r} < in={t[u]!r}"
            if name == f"fp:max[{u}]:attained" and not (
                    out[u] == t[u] or any(out[u] == out[c] + eps for c in ch[u])
                    or any(out[c] + eps == out[c] and out[u] == np.nextafter(out[c], np.inf)
                           for c in ch[u])):
                return True, f"out[{u}]={out[u]!r} is neither its input nor a child+eps"
            if name == f"fp:sample[{u}]:kept" and out[u] != t[u]:
                return True, f"sample {u} moved {t[u]!r} -> {out[u]!r}"
        return False, f"holds on doubles: in={t} out={out}"
    tt, oo = tf_array(t), tf_array(out)
    if name.startswith("input_untouched"):
        return False, "n/a on compiled code (copy semantics)"
    for nm, claim in obligations(which, ep, ec, fixed, tt, oo, TF(eps), iters,
                                 lambda *a: any(a)):
        if nm == name:
            return (not bool(claim)), f"in={t.tolist()} eps={eps} out={out.tolist()}"
    return None, f"unknown obligation {name}"
