"""C24 - per-edge mutation, span and singleton-block tallies are exact."""
import numpy as np

from checks import common
from checks.common import Case
from checks.coords import SymCoords
from symx import skeletons as SK

SKELS = ["cat3", "two_tree", "two_parents", "disjoint_node", "two_roots", "mutation_above_root",
         "local_root_mutation", "multi_hit", "multi_hit_mono",
         "unary_nonsample", "internal_sample", "diploid_cherry", "diploid_two_tree"]


def _call_count(ctx, rescaling, ts, sc, mask, size_biased):
    return rescaling._count_mutations(
        mask, ts.mutations_node, sc.mut_pos, ts.edges_parent, ts.edges_child, sc.left, sc.right,
        ts.indexes_edge_insertion_order, ts.indexes_edge_removal_order, sc.L, size_biased)


def h_count(ctx, skel, size_biased, custom_mask=False):
    from symx import load
    from symx.dom import Q
    rescaling = load.tsdate_module("rescaling")
    ts = SK.all_named()[skel]()
    with load.patched(rescaling):
        sc = SymCoords(ctx, ts)
        mask = np.full(ts.num_nodes, False)
        samples = list(ts.samples())
        if custom_mask:
            samples = samples[:-1]          # an explicit, different sample set
        mask[samples] = True
        try:
            stats, medge = _call_count(ctx, rescaling, ts, sc, mask, size_biased)
        except Exception as e:
            ctx.fail("no-exception", detail={"exception": repr(e)[:300]})
            return
    trees = sc.tree_intervals()

    def weight(tree, node):
        if not size_biased:
            return 1
        return sum(1 for s in samples if tree.is_descendant(s, node))

    for e in range(ts.num_edges):
        ed = ts.edge(e)
        span = Q.of(0)
        for l, r, t in trees:
            if t.interval[0] >= ed.left and t.interval[1] <= ed.right:
                span = span + (r - l) * weight(t, ed.child)
        ctx.prove(f"count:span[{e}]", Q.of(stats[e, 1]) == span)
        cnt = 0
        for m in ts.mutations():
            pos = ts.site(m.site).position
            if m.node == ed.child and ed.left <= pos < ed.right:
                cnt += weight(ts.at(pos), m.node)
        ctx.prove(f"count:mutations[{e}]", Q.of(stats[e, 0]) == cnt)
    for m in ts.mutations():
        ctx.prove(f"count:mutation_edge[{m.id}]", int(medge[m.id]) == int(ts.mutations_edge[m.id]))
    ctx.tag("size_biased" if size_biased else "plain")
    if custom_mask:
        ctx.tag("custom_mask")


def h_public(ctx, skel, size_biased):
    """the public count_mutations(ts) wrapper hands the kernel per-MUTATION positions etc.:
    same result as the kernel called directly on the columns."""
    from symx import load
    from symx.dom import Q
    from checks.coords import SymTS
    rescaling = load.tsdate_module("rescaling")
    ts = SK.all_named()[skel]()
    with load.patched(rescaling):
        sc = SymCoords(ctx, ts)
        mask = np.full(ts.num_nodes, False)
        mask[list(ts.samples())] = True
        try:
            want, wedge = _call_count(ctx, rescaling, ts, sc, mask, size_biased)
            got, gedge = rescaling.count_mutations(SymTS(ts, sc), size_biased=size_biased)
        except Exception as e:
            ctx.fail("no-exception", detail={"exception": repr(e)[:300]})
            return
    ctx.prove("public:same_shape", got.shape == want.shape)
    for e in range(ts.num_edges):
        ctx.prove(f"public:mutations[{e}]", Q.of(got[e, 0]) == Q.of(want[e, 0]))
        ctx.prove(f"public:span[{e}]", Q.of(got[e, 1]) == Q.of(want[e, 1]))
    ctx.prove("public:mutation_edges", [int(x) for x in gedge] == [int(x) for x in wedge])
    ctx.tag("public")
    from symx.dom import choice
    choice("pad_")


def h_public_mask(ctx, skel):
    """count_mutations(ts, node_is_sample=mask) with a correctly sized mask must not raise and
    must use that mask."""
    from symx import load
    rescaling = load.tsdate_module("rescaling")
    ts = SK.all_named()[skel]()
    mask = np.full(ts.num_nodes, False)
    mask[list(ts.samples())[:-1]] = True
    try:
        a, _ = rescaling.count_mutations(ts, node_is_sample=mask, size_biased=True)
        b, _ = rescaling._count_mutations(
            mask, ts.mutations_node, ts.sites_position[ts.mutations_site], ts.edges_parent,
            ts.edges_child, ts.edges_left, ts.edges_right, ts.indexes_edge_insertion_order,
            ts.indexes_edge_removal_order, ts.sequence_length, True)
    except Exception as e:
        ctx.fail("mask:accepted", detail={"exception": repr(e)[:200]})
        return
    ctx.prove("mask:used", bool(np.array_equal(np.asarray(a, dtype=float),
                                               np.asarray(b, dtype=float))))
    # two trivially different paths so that the vacuity guard sees a fork
    from symx.dom import choice
    choice("pad_")


def h_blocks(ctx, skel):
    from symx import load
    from symx.dom import Q
    phasing = load.tsdate_module("phasing")
    ts = SK.all_named()[skel]()
    with load.patched(phasing):
        sc = SymCoords(ctx, ts)
        unph = np.full(ts.num_individuals, True)
        try:
            stats, bedges, mblock = phasing._block_singletons(
                unph, ts.nodes_individual, ts.mutations_node, sc.mut_pos, ts.edges_parent,
                ts.edges_child, sc.left, sc.right, ts.indexes_edge_insertion_order,
                ts.indexes_edge_removal_order, sc.L)
        except Exception as e:
            ctx.fail("no-exception", detail={"exception": repr(e)[:300]})
            return
    # oracle: per individual, maximal runs of trees with the same pair of leaf edges
    want = []   # (frozenset(edges), span, singletons, [mutation ids])
    for ind in ts.individuals():
        a, b = [int(x) for x in ind.nodes]
        cur = None
        for l, r, t in sc.tree_intervals():
            ea = t.edge(a) if t.parent(a) != -1 else -1
            eb = t.edge(b) if t.parent(b) != -1 else -1
            muts = [m.id for s in t.sites() for m in s.mutations if m.node in (a, b)]
            key = frozenset((ea, eb))
            if ea == -1 or eb == -1:
                cur = None
                continue
            if cur is not None and cur[0] == key:
                cur[1] = cur[1] + (r - l)
                cur[2] += muts
            else:
                cur = [key, r - l, list(muts)]
                want.append(cur)
    ctx.prove("blocks:number", stats.shape[0] == len(want))
    got = {}
    for i in range(stats.shape[0]):
        got[frozenset(int(x) for x in bedges[i])] = (stats[i, 1], stats[i, 0], i)
    for key, span, muts in want:
        ctx.prove(f"blocks:pair{sorted(key)}:present", key in got)
        if key not in got:
            continue
        ctx.prove(f"blocks:pair{sorted(key)}:span", Q.of(got[key][0]) == span)
        ctx.prove(f"blocks:pair{sorted(key)}:singletons", Q.of(got[key][1]) == len(muts))
        for m in muts:
            ctx.prove(f"blocks:mutation[{m}]:block", int(mblock[m]) == got[key][2])
    in_block = {m for _, _, ms in want for m in ms}
    for m in range(ts.num_mutations):
        if m not in in_block:
            ctx.prove(f"blocks:mutation[{m}]:not_in_a_block", int(mblock[m]) == -1)
    ctx.tag("blocks")


def cases(tier):
    cs = []
    for sk in SKELS:
        for sb in (False, True):
            cs.append(Case(f"count:{sk}:sb{int(sb)}", h_count, dict(skel=sk, size_biased=sb)))
    for sk in ("cat3", "two_tree", "two_parents"):
        cs.append(Case(f"count:{sk}:sb1:custom", h_count,
                       dict(skel=sk, size_biased=True, custom_mask=True)))
        cs.append(Case(f"mask:{sk}", h_public_mask, dict(skel=sk)))
    for sk in ("cat3", "two_tree", "multi_hit", "multi_hit_mono", "local_root_mutation"):
        for sb in (False, True):
            cs.append(Case(f"public:{sk}:sb{int(sb)}", h_public, dict(skel=sk, size_biased=sb)))
    for sk in ("diploid_cherry", "diploid_two_tree", "diploid_missing"):
        cs.append(Case(f"blocks:{sk}", h_blocks, dict(skel=sk)))
    if tier == "thorough":      # msprime ARGs (4 samples, a few trees), family chosen by VERIF_SEED
        for sk in SK.random_names(6):
            for sb in (False, True):
                cs.append(Case(f"count:{sk}:sb{int(sb)}", h_count, dict(skel=sk, size_biased=sb), weight=20))
                cs.append(Case(f"public:{sk}:sb{int(sb)}", h_public, dict(skel=sk, size_biased=sb), weight=20))
    return cs


def run(tier, seed, t0):
    from symx import npx
    cs = cases(tier)
    outs = common.run_cases(cs)
    return common.finish(
        "C24", tier, seed, t0, outs,
        explanation="rescaling._count_mutations (plain and frequency-weighted, default and explicit "
        "sample sets) and phasing._block_singletons are executed on skeleton tree sequences whose "
        "breakpoints, sequence length and site positions are symbolic (order preserved); z3 proves "
        "every edge's span / mutation tally and every block's span / singleton count equal to a "
        "direct per-tree tally written in the harness with tskit's own Tree API; "
        "count_mutations(node_is_sample=mask) must accept a correctly sized mask and use it.",
        functions=["tsdate.rescaling._count_mutations", "tsdate.rescaling.count_mutations",
                   "tsdate.phasing._block_singletons"],
        bounds={"skeletons": SKELS + ["diploid_missing"], "trees": "<= 3", "nodes": "<= 7",
                "coordinates": "all positive gaps between consecutive breakpoints; sites anywhere "
                               "strictly inside their skeleton interval"},
        stubs=["numpy via symx.npx"],
        assumptions=["edge insertion/removal index arrays are those tskit computes for the skeleton "
                     "(they depend only on the order of coordinates, preserved symbolically)"],
        out_of_scope=["tskit's own index construction", "inputs with > 3 trees"],
        validated=npx.validate(),
        expect_tags=["plain", "size_biased", "custom_mask", "blocks", "public"],
    )


def replay(payload):
    """Concrete re-run on the compiled kernels: the skeleton's own coordinates and the same
    skeleton at non-integer coordinates (x 0.37)."""
    from checks.c07 import _scaled
    ts = SK.all_named()[payload["case_kw"]["skel"]]()
    out = []
    for variant in (ts, _scaled(ts, 0.37)):
        r, info = _replay_on(variant, payload)
        if r:
            return r, info
        out.append(info)
    return False, "; ".join(out)


def _replay_on(ts, payload):
    import tsdate
    from tsdate import rescaling, phasing
    kw = payload["case_kw"]
    case = payload["case"]
    if case.startswith("mask:"):
        mask = np.full(ts.num_nodes, False)
        mask[list(ts.samples())[:-1]] = True
        try:
            rescaling.count_mutations(ts, node_is_sample=mask, size_biased=True)
        except AssertionError as e:
            return True, f"count_mutations(ts, node_is_sample=<mask of size num_nodes>) raised {e!r}"
        return False, "mask accepted"
    # the skeleton's own coordinates are a concrete instance of the symbolic family
    if case.startswith(("count:", "public:")):
        sb = kw["size_biased"]
        samples = list(ts.samples())
        if kw.get("custom_mask"):
            samples = samples[:-1]
        mask = np.full(ts.num_nodes, False)
        mask[samples] = True
        if case.startswith("public:"):
            stats, medge = rescaling.count_mutations(ts, size_biased=sb)
        else:
            stats, medge = rescaling._count_mutations(
                mask, ts.mutations_node, ts.sites_position[ts.mutations_site], ts.edges_parent,
                ts.edges_child, ts.edges_left, ts.edges_right, ts.indexes_edge_insertion_order,
                ts.indexes_edge_removal_order, ts.sequence_length, sb)
        bad = []
        for e in ts.edges():
            span = 0.0
            cnt = 0.0
            for t in ts.trees():
                if t.interval[0] >= e.left and t.interval[1] <= e.right:
                    w = sum(1 for s in samples if t.is_descendant(s, e.child)) if sb else 1
                    span += t.span * w
                    for s_ in t.sites():
                        for m in s_.mutations:
                            if m.node == e.child:
                                cnt += w
            if abs(stats[e.id, 1] - span) > 1e-9 or abs(stats[e.id, 0] - cnt) > 1e-9:
                bad.append((e.id, stats[e.id].tolist(), cnt, span))
        if not np.array_equal(medge, ts.mutations_edge):
            bad.append(("mutations_edge", medge.tolist(), ts.mutations_edge.tolist()))
        return bool(bad), str(bad[:4])
    unph = np.full(ts.num_individuals, True)
    stats, bedges, mblock = phasing.block_singletons(ts, unph)
    want = {}
    for ind in ts.individuals():
        a, b = [int(x) for x in ind.nodes]
        cur = None
        for t in ts.trees():
            if t.parent(a) == -1 or t.parent(b) == -1:
                cur = None
                continue
            key = frozenset((t.edge(a), t.edge(b)))
            n = sum(1 for s in t.sites() for m in s.mutations if m.node in (a, b))
            if cur is not None and cur[0] == key:
                cur[1] += t.span
                cur[2] += n
            else:
                cur = [key, t.span, n]
                want[key] = cur
    got = {frozenset(int(x) for x in bedges[i]): stats[i] for i in range(len(stats))}
    bad = [(sorted(k), v[1], v[2], got.get(k, [None, None])[1], got.get(k, [None, None])[0])
           for k, v in want.items()
           if k not in got or abs(got[k][1] - v[1]) > 1e-9 or got[k][0] != v[2]]
    if len(got) != len(want):
        bad.append(("number of blocks", len(got), len(want)))
    return bool(bad), str(bad[:4])
