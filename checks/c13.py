"""C13 - maximization assigns ordered grid timepoints by the documented arg-max rule."""
import math

import numpy as np

from checks import common
from checks import discrete_h as D
from checks.c10 import _ts_for
from checks.common import Case


def h_rule(ctx, skel, G, space, zero_first=True):
    from symx.dom import LogQ, Q, And
    ts = _ts_for(skel)
    with D.setup(ctx, ts, G, space, zero_first=zero_first, build="method") as env:
        m = D.make_method(env, ts, "maximization")
        try:
            res = m.run(eps=env.eps, probability_space=space, num_threads=None,
                        cache_inside=False)
        except Exception as e:
            ctx.fail("no-exception", detail={"exception": repr(e)})
            return
        fit = res.fit_object
        tp = env.timepoints
        keys = {}
        for g in range(G):
            keys[Q.of(tp[g]).key()] = g
        samples = set(int(s) for s in ts.samples())
        idx = {}
        for u in range(ts.num_nodes):
            v = res.posterior_mean[u]
            if u in samples:
                continue
            k = Q.of(v).key()
            ctx.prove(f"rule:node[{u}]:is_a_timepoint", k in keys)
            if k not in keys:
                return
            idx[u] = keys[k]
        ctx.prove("rule:no_variance_reported", res.posterior_var is None)
        pois = D.ScipyStub.stats.poisson
        mut_edges = fit.lik.mut_edges

        def lin(x):
            if isinstance(x, LogQ):
                return x.q
            if isinstance(x, Q):
                return x
            f = float(x)
            if env.log:
                return Q.of(0) if f == -math.inf else Q.of(math.exp(f))
            return Q.of(f)

        parents = {}
        for e in ts.edges():
            if e.child not in samples:
                parents.setdefault(e.child, []).append(e)
        for e in ts.edges():
            if e.child in samples:
                continue
            ctx.prove(f"rule:edge[{e.parent}>{e.child}]:child_not_later",
                      idx[e.child] <= idx[e.parent])
        for u in idx:
            ins = [lin(x) for x in fit.inside[u]]
            if u not in parents:
                for g in range(G):
                    ctx.prove(f"rule:root[{u}]:argmax_inside[{g}]", ins[idx[u]] >= ins[g])
                ctx.tag("root")
                continue
            lim = min(idx[e.parent] for e in parents[u])
            ctx.prove(f"rule:node[{u}]:within_youngest_parent", idx[u] <= lim)

            def score(g):
                s = ins[g]
                for e in parents[u]:
                    lam = (tp[idx[e.parent]] - tp[g] + env.eps) * env.mu * e.span
                    s = s * pois.pmf(int(mut_edges[e.id]), lam)
                return s
            best = score(idx[u])
            for g in range(lim + 1):
                ctx.prove(f"rule:node[{u}]:argmax_score[{g}]", best >= score(g))
            ctx.tag("child" if len(parents[u]) == 1 else "multi-parent")


def cases(tier):
    cs = []
    if tier == "quick":
        spec = [("cherry", 4), ("cat3", 3), ("cat3", 4), ("tri", 4), ("two_parents", 3),
                ("root_not_last", 3), ("bal4", 3)]
    else:
        spec = [("cherry", 5), ("cat3", 4), ("cat3", 5), ("tri", 5), ("two_parents", 4),
                ("root_not_last", 4), ("bal4", 4), ("cat4", 3), ("two_tree", 3),
                ("disjoint_node", 3)]
    for sk, G in spec:
        for space in ("linear", "logarithmic"):
            for zf in (True, False):
                cs.append(Case(f"rule:{sk}:G{G}:{space[:3]}:zf{int(zf)}", h_rule,
                               dict(skel=sk, G=G, space=space, zero_first=zf),
                               weight=G ** 2))
    return cs


def run(tier, seed, t0):
    from symx import npx
    cs = cases(tier)
    outs = common.run_cases(cs)
    return common.finish(
        "C13", tier, seed, t0, outs,
        explanation="core.MaximizationMethod.run (inside pass + BeliefPropagation."
        "outside_maximization) is executed on real tskit inputs with symbolic priors, "
        "timepoints, rate, eps and an uninterpreted Poisson; np.argmax forks over the position "
        "of each maximum.  On every path z3 proves: every node gets a grid timepoint, no child "
        "is later than any parent, never-a-child nodes maximise their inside value, every other "
        "node maximises inside x product of the mutation likelihoods to its assigned parents "
        "among timepoints no later than its youngest parent.",
        functions=["tsdate.core.MaximizationMethod.run",
                   "tsdate.discrete.BeliefPropagation.inside_pass/outside_maximization/"
                   "edges_by_child_then_parent_desc"],
        bounds={"inputs": sorted({c.kw["skel"] for c in cs}), "grid": "3-4 quick, 3-5 thorough",
                "parents_per_node": "1-2"},
        stubs=["scipy.stats.poisson -> uninterpreted positive function",
               "np.max normalisers -> fresh positive symbols", "logsumexp summary (C10)"],
        assumptions=["exact real arithmetic; ties are allowed to be broken either way (the "
                     "obligation is score(chosen) >= score(g))",
                     "inside values are taken from the fit object (their exactness is C10)"],
        out_of_scope=["rounding", "inputs with > 7 nodes"],
        validated=npx.validate(),
        expect_tags=["root", "child", "multi-parent"],
    )


def replay(payload):
    """Concrete run through tsdate.maximization; the rule is re-evaluated with real Poisson."""
    import scipy.stats
    import tsdate
    kw = payload["case_kw"]
    m = common.model_floats(payload["model"])
    ts = _ts_for(kw["skel"])
    G, space = kw["G"], kw["space"]
    outs = []
    # the model's point, two fixed ones, and a deterministic family of prior rows / rates: the
    # symbolic counterexample fixes the Poisson terms arbitrarily, so the concrete witness has
    # to be looked for among real ones
    rng = np.random.default_rng(0)
    cands = [(max(float(m.get("mu", 0.3)), 1e-9), max(float(m.get("eps", 1e-3)), 1e-12), None),
             (0.05, 0.01, None), (0.3, 0.001, None)]
    for _ in range(40):
        cands.append((float(rng.choice([0.05, 0.5, 3.0])), float(rng.choice([1e-3, 0.05])),
                      rng.uniform(0.01, 1.0, size=(ts.num_nodes, G)) ** 3))
    for mu, eps, rows in cands:
        tp = [0.0]
        for g in range(1, G):
            tp.append(tp[-1] + max(float(m.get(f"dt{g}", 1.0)), 1e-6))
        pri = tsdate.build_prior_grid(ts, population_size=1, timepoints=np.array(tp))
        for u in pri.nonfixed_nodes:
            if rows is None:
                row = [max(float(m.get(f"pr{u}_{g}", 1.0)), 1e-12) for g in range(G)]
            else:
                row = list(rows[int(u)])
            if kw.get("zero_first", True):
                row[0] = 0.0
            pri[u] = np.array(row)
        try:
            _, fit = tsdate.maximization(ts, mutation_rate=mu, priors=pri, eps=eps,
                                         probability_space=space, return_fit=True)
        except Exception as e:
            return True, f"raised {e!r}"
        tpr = np.asarray(fit.lik.timepoints, dtype=float)
        samples = set(int(s) for s in ts.samples())
        idx = {}
        bad = []
        for u in range(ts.num_nodes):
            if u in samples:
                continue
            w = np.where(tpr == fit.posterior_mean[u])[0]
            if len(w) != 1:
                bad.append(("not a timepoint", u, float(fit.posterior_mean[u])))
                continue
            idx[u] = int(w[0])
        if bad:
            return True, str(bad)
        parents = {}
        for e in ts.edges():
            if e.child not in samples:
                parents.setdefault(e.child, []).append(e)
                if idx[e.child] > idx[e.parent]:
                    bad.append(("child later than parent", e.parent, e.child))
        for u in idx:
            ins = np.asarray(fit.inside[u], dtype=float)
            ins = np.exp(ins) if space == "logarithmic" else ins
            if u not in parents:
                if ins[idx[u]] < ins.max() * (1 - 1e-9):
                    bad.append(("root not argmax", u, idx[u], ins.tolist()))
                continue
            lim = min(idx[e.parent] for e in parents[u])
            sc = []
            for g in range(lim + 1):
                s = ins[g]
                for e in parents[u]:
                    s *= scipy.stats.poisson.pmf(fit.lik.mut_edges[e.id],
                                                 (tpr[idx[e.parent]] - tpr[g] + eps) * mu * e.span)
                sc.append(s)
            if idx[u] > lim or sc[idx[u]] < max(sc) * (1 - 1e-9):
                bad.append(("not argmax of score", u, idx[u], lim, sc))
        if bad:
            return True, f"mu={mu} eps={eps}: {str(bad)[:600]}"
        outs.append(f"rule holds at mu={mu} eps={eps}")
    return False, "; ".join(outs)
