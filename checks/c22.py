"""C22 - unphased singleton handling only re-phases singletons and ignores the input phase."""
import math

import numpy as np

from checks import common, ep_h, c23
from checks.common import Case
from checks.coords import SymCoords
from symx import skeletons as SK


def _swap_phase(ts, which):
    """Move the singletons listed in `which` (mutation ids) to the other node of their
    individual (a different input phasing of the same data)."""
    t = ts.dump_tables()
    node = t.mutations.node.copy()
    for m in which:
        ind = ts.node(node[m]).individual
        a, b = ts.individual(ind).nodes
        node[m] = b if node[m] == a else a
    t.mutations.node = node
    t.mutations.parent = np.full_like(t.mutations.parent, -1)
    t.sort()
    t.build_index()
    t.compute_mutation_parents()
    return t.tree_sequence()


def _blocks(ctx, phasing, ts, sc, unph):
    return phasing._block_singletons(
        unph, ts.nodes_individual, ts.mutations_node, sc.mut_pos, ts.edges_parent,
        ts.edges_child, sc.left, sc.right, ts.indexes_edge_insertion_order,
        ts.indexes_edge_removal_order, sc.L)


def h_blocks_rephase(ctx, skel, swap):
    """_block_singletons on an input and on a re-phased copy: same blocks (as edge pairs),
    same spans and singleton counts, same block for every mutation; every block's two edges
    are the leaf edges of ONE individual's two nodes and cover its mutations' positions."""
    from symx import load
    from symx.dom import Q
    phasing = load.tsdate_module("phasing")
    A = SK.all_named()[skel]()
    B = _swap_phase(A, swap)
    res = {}
    with load.patched(phasing):
        for name, ts in (("A", A), ("B", B)):
            sc = SymCoords(ctx, ts)     # same symbol names => same coordinates in both runs
            try:
                res[name] = _blocks(ctx, phasing, ts, sc, np.full(ts.num_individuals, True)) + (sc,)
            except Exception as e:
                ctx.fail(f"no-exception:{name}", detail={"exception": repr(e)[:300]})
                return
        # phased individuals: nothing is blocked
        sc = SymCoords(ctx, A)
        st0, be0, mb0 = _blocks(ctx, phasing, A, sc, np.full(A.num_individuals, False))
    ctx.prove("phased:no_blocks", st0.shape[0] == 0 and bool(np.all(mb0 == -1)))

    def table(r):
        st, be, mb, sc = r
        return {frozenset(int(x) for x in be[i]): (st[i, 0], st[i, 1], i) for i in range(len(be))}
    ta, tb = table(res["A"]), table(res["B"])
    ctx.prove("rephase:same_block_edge_pairs", set(ta) == set(tb))
    for k in ta:
        if k in tb:
            ctx.prove(f"rephase:block{sorted(k)}:singletons", Q.of(ta[k][0]) == tb[k][0])
            ctx.prove(f"rephase:block{sorted(k)}:span", Q.of(ta[k][1]) == tb[k][1])
    inv_a = {v[2]: k for k, v in ta.items()}
    inv_b = {v[2]: k for k, v in tb.items()}
    # mutation ids may be re-sorted by tskit: match by site
    site_a = {int(A.mutations_site[m]): m for m in range(A.num_mutations)}
    site_b = {int(B.mutations_site[m]): m for m in range(B.num_mutations)}
    for s, ma in site_a.items():
        mbid = site_b[s]
        ba, bb = int(res["A"][2][ma]), int(res["B"][2][mbid])
        ctx.prove(f"rephase:mutation_at_site[{s}]:same_block",
                  (ba == -1 and bb == -1) or (ba >= 0 and bb >= 0 and inv_a[ba] == inv_b[bb]))
    # structure of blocks in A
    st, be, mb, sc = res["A"]
    for m in range(A.num_mutations):
        b = int(mb[m])
        node = int(A.mutations_node[m])
        ind = int(A.nodes_individual[node])
        if b < 0:
            ctx.prove(f"blocks:mutation[{m}]:unblocked_only_if_no_individual", ind == -1)
            continue
        e0, e1 = int(be[b, 0]), int(be[b, 1])
        kids = {int(A.edges_child[e0]), int(A.edges_child[e1])}
        ctx.prove(f"blocks:mutation[{m}]:edges_are_the_individuals_two_nodes",
                  kids == set(int(x) for x in A.individual(ind).nodes))
        pos = A.sites_position[A.mutations_site[m]]
        ctx.prove(f"blocks:mutation[{m}]:both_edges_cover_its_position",
                  all(A.edges_left[e] <= pos < A.edges_right[e] for e in (e0, e1)))
    ctx.tag("rephase")


def h_rescale_rephase(ctx, layout, segsites, nan_first=False):
    """infer (flip) + rescale prefix on two input phasings of the same singletons: the counts
    used for rescaling are identical (the input phase is forgotten)."""
    from symx.dom import sym, Q
    muts = c23.LAYOUTS[layout]
    outs = []
    for variant in (0, 1):
        # variant 1 moves every singleton to the other edge of its block in the INPUT
        mv = [(b, e) if variant == 0 else (b, {0: 1, 1: 0, 2: 3, 3: 2}[e]) for b, e in muts]
        used = _run_prefix(ctx, mv, segsites, nan_first)
        if used is None:
            return
        outs.append(used)
    for e in range(6):
        ctx.prove(f"rescale_rephase:count[{e}]_independent_of_input_phase",
                  Q.of(outs[0][e, 0]) == outs[1][e, 0])
    ctx.tag("rescale-rephase")


def _run_prefix(ctx, muts, segsites, nan_first=False):
    from symx.dom import sym
    nm = len(muts) + 1
    with ep_h.patched_ep(more=("phasing", "rescaling")) as (var, approx, npx):
        obj = object.__new__(var.ExpectationPropagation)
        obj.mutation_blocks = np.array([b for b, e in muts] + [-1], dtype=np.int32)
        obj.mutation_order = np.arange(nm, dtype=np.int32)
        obj.mutation_posterior = npx.full((nm, 2), math.nan)
        obj.mutation_phase = npx.ones(nm)
        obj.mutation_edges = np.array([e for b, e in muts] + [4], dtype=np.int32)
        obj.mutation_nodes = obj.mutation_edges.copy()
        obj.block_edges = np.array(c23.BLOCK_EDGES.get("", [[0, 1], [2, 3]]), dtype=np.int32)
        obj.block_nodes = np.array([[6, 6], [7, 8]], dtype=np.int32)
        obj.block_likelihoods = npx.zeros((2, 2))
        obj.edge_children = np.arange(6, dtype=np.int32)
        obj.edge_parents = np.array([6, 7, 6, 8, 7, 8], dtype=np.int32)
        for nm_ in ("edge_likelihoods", "sizebiased_likelihoods"):
            a = npx.zeros((6, 2))
            for e in range(6):
                a[e, 1] = sym(f"{nm_[:2]}span{e}", "pos")
                a[e, 0] = float(sum(1 for b, ee in muts if ee == e)) if e < 4 \
                    else sym(f"{nm_[:2]}y{e}", "nonneg")
            setattr(obj, nm_, a)
        obj.edge_logconst = npx.zeros(6)
        obj.node_constraints = npx.zeros((9, 2))
        obj.node_posterior = npx.zeros((9, 2))
        obj.factors = None
        obj.iterate = lambda **kw: None

        def prop_mut(order, post, phase, *a):
            if a[-1]:
                for m in order:     # fitted phase: a function of the block data only
                    if nan_first is not False and int(m) == (0 if nan_first is True else int(nan_first)):
                        phase[m] = math.nan     # projection rejected numerically
                        continue
                    p = sym(f"phase{m}", "nonneg")
                    ctx.assume(p <= 1)
                    phase[m] = p
        obj.propagate_mutations = prop_mut
        saved = var.mutational_timescale

        def stop(*a, **k):
            raise c23._Stop()
        var.mutational_timescale = stop
        try:
            try:
                obj.infer(ep_iterations=1, max_shape=1000, rescale_intervals=3,
                          rescale_iterations=1, regularise=True, rescale_segsites=segsites)
            except c23._Stop:
                pass
            except Exception as e:
                ctx.fail("no-exception", detail={"exception": repr(e)[:300]})
                return None
        finally:
            var.mutational_timescale = saved
        return (obj.edge_likelihoods if segsites else obj.sizebiased_likelihoods).copy()


def cases(tier):
    cs = []
    for sk, swap in (("diploid_cherry", [0]), ("diploid_cherry", [0, 1, 2]),
                     ("diploid_two_tree", [0]), ("diploid_two_tree", [1, 2]),
                     ("diploid_missing", [0]), ("diploid_three_tree", [0, 3])):
        cs.append(Case(f"blocks:{sk}:swap{''.join(map(str, swap))}", h_blocks_rephase,
                       dict(skel=sk, swap=swap)))
    for lay in ("one_per_block", "two_in_block", "three_mixed"):
        for seg in (False, True):
            cs.append(Case(f"rescale:{lay}:seg{int(seg)}", h_rescale_rephase,
                           dict(layout=lay, segsites=seg)))
            cs.append(Case(f"rescale:{lay}:seg{int(seg)}:nan", h_rescale_rephase,
                           dict(layout=lay, segsites=seg, nan_first=True)))
            if tier == "thorough" and len(c23.LAYOUTS[lay]) >= 2:
                cs.append(Case(f"rescale:{lay}:seg{int(seg)}:nan1", h_rescale_rephase,
                               dict(layout=lay, segsites=seg, nan_first=1)))
    return cs


def run(tier, seed, t0):
    from symx import npx
    cs = cases(tier)
    outs = common.run_cases(cs)
    return common.finish(
        "C22", tier, seed, t0, outs,
        explanation="Relational symbolic execution: phasing._block_singletons is run on an input "
        "with symbolic coordinates and on copies whose singletons sit on the other node of their "
        "individual; blocks (as edge pairs), spans, singleton counts and each mutation's block are "
        "proved identical, every block's edges are the leaf edges of one individual's two nodes "
        "and cover its mutations, and with phased individuals nothing is blocked.  The real infer "
        "(flip/placement) + rescale prefix is run on two input phasings with the same fitted "
        "phases: the mutation counts used for rescaling are proved identical for both settings "
        "of match_segregating_sites.  (Placement moving only to the individual's other node is "
        "the 'placement follows phase' obligation of C05's infer harness plus the block structure "
        "proved here.)",
        functions=["tsdate.phasing._block_singletons", "tsdate.phasing.reallocate_unphased",
                   "tsdate.variational.ExpectationPropagation.infer / rescale (prefix)"],
        bounds={"skeletons": "diploid_cherry, diploid_two_tree, diploid_three_tree, diploid_missing (<= 3 trees, 1-2 "
                "individuals, <= 4 singletons)", "layouts": list(c23.LAYOUTS),
                "coordinates/phases": "symbolic"},
        stubs=["iterate / propagate_mutations replaced on the instance; rescale cut after "
               "reallocate_unphased"],
        assumptions=["EP's block updates depend on the input only through block_likelihoods / "
                     "block_nodes (proved input-phase invariant here)", "at most the first singleton has an undefined (NaN) fitted phase"],
        out_of_scope=["numerical symmetry of the unphased moment functions in floating point"],
        validated=npx.validate(),
        expect_tags=["rephase", "rescale-rephase"],
    )


def replay(payload):
    """Public API: date(singletons_phased=False) on an input and on a re-phased copy."""
    import tsdate
    bad = []
    for name in ("diploid_cherry", "diploid_two_tree", "diploid_three_tree"):
        A = SK.all_named()[name]()
        for swap in ([0], [0, 1]):
            B = _swap_phase(A, swap)
            for seg in (False, True):
                try:
                    a = tsdate.date(A, mutation_rate=0.1, singletons_phased=False,
                                    match_segregating_sites=seg, rescaling_intervals=2)
                    b = tsdate.date(B, mutation_rate=0.1, singletons_phased=False,
                                    match_segregating_sites=seg, rescaling_intervals=2)
                except AssertionError as e:
                    if "rescaling intervals" in repr(e):
                        continue
                    raise
                if not np.allclose(a.nodes_time, b.nodes_time, rtol=1e-6):
                    bad.append((name, swap, seg, a.nodes_time.tolist(), b.nodes_time.tolist()))
            p = tsdate.date(A, mutation_rate=0.1, singletons_phased=True)
            if not np.array_equal(p.mutations_node, A.mutations_node):
                bad.append((name, "phased run moved mutations"))
    # an input on which some fitted phases are undefined (NaN): placement and times must still
    # not depend on the input phase
    A = c23._undefined_phase_input()
    which = [int(m) for m in np.flatnonzero(A.mutations_node == 1)[:40]]
    B = _swap_phase(A, which)
    for ri in (0, 3):
        a = tsdate.date(A, mutation_rate=1e-8, singletons_phased=False, rescaling_intervals=ri)
        b = tsdate.date(B, mutation_rate=1e-8, singletons_phased=False, rescaling_intervals=ri)
        if not np.array_equal(a.mutations_node, b.mutations_node):
            bad.append(("undefined_phase", ri, "mutation nodes depend on the input phase",
                        int(np.sum(a.mutations_node != b.mutations_node))))
        if not np.allclose(a.nodes_time, b.nodes_time, rtol=1e-6):
            bad.append(("undefined_phase", ri, "node times depend on the input phase"))
    return bool(bad), str(bad[:3])
