"""C10 - inside-outside is exact on a single tree (both probability spaces) and the returned
likelihood is the exact normalising constant."""
import itertools
import math
from fractions import Fraction

import numpy as np

from checks import common
from checks import discrete_h as D
from checks.common import Case
from symx import skeletons as SK


def _ts_for(skel):
    if skel.startswith("shape"):
        n, i = map(int, skel[5:].split("_"))
        return SK.shape_ts(SK.all_shapes(n)[i])
    return SK.all_named()[skel]()


def _row_lin(row):
    from symx.dom import LogQ, Q
    out = []
    for x in row:
        if isinstance(x, LogQ):
            out.append(x.q)
        elif isinstance(x, Q):
            out.append(x)
        else:
            f = float(x)
            out.append(Q(Fraction(0)) if (f == -math.inf or f == 0.0) else Q.of(f))
    return out


def h_exact(ctx, skel, G, space, std=True, cache=False, zero_first=True):
    from symx.dom import LogQ, Q
    ts = _ts_for(skel)
    with D.setup(ctx, ts, G, space, zero_first=zero_first) as env:
        bp = env.bp
        try:
            ml = bp.inside_pass(cache_inside=cache)
            bp.outside_pass(standardize=std)
        except Exception as e:
            ctx.fail("no-exception", detail={"exception": repr(e)})
            return
        W, Z = D.brute_force(ts, env)
        post = bp.posterior_grid
        log = space != "linear"
        for u in env.nonfixed:
            if log:
                row = _row_lin(post[u])      # LogQ -> its argument, -inf -> 0
            else:
                row = [Q.of(x) for x in post[u]]
            tot = sum(row[1:], row[0])
            ctx.prove(f"post[{u}]:row_not_all_zero", tot > 0)
            for g in range(G):
                ctx.prove(f"post[{u}][{g}]", row[g] * Z == W[(int(u), g)] * tot)
        if isinstance(ml, LogQ):
            ctx.prove("marginal_likelihood", ml.q == Z)
        elif log:
            ctx.prove("marginal_likelihood", False, detail={"ml": repr(ml)})
        else:
            ctx.prove("marginal_likelihood", Q.of(ml) == Z)
        ctx.tag("exact")


def h_run(ctx, skel, G, space, std=True, cache=False, zero_first=True):
    """The whole InsideOutsideMethod.run (main_algorithm, inside, outside, standardize,
    force linear, to_probabilities, mean_var) against the brute-force posterior."""
    from symx.dom import LogQ, Q
    ts = _ts_for(skel)
    with D.setup(ctx, ts, G, space, zero_first=zero_first, build="method") as env:
        m = D.make_method(env, ts, "inside_outside")
        try:
            res = m.run(eps=env.eps, outside_standardize=std, ignore_oldest_root=False,
                        probability_space=space, num_threads=None, cache_inside=cache)
        except Exception as e:
            ctx.fail("no-exception", detail={"exception": repr(e)})
            return
        W, Z = D.brute_force(ts, env)
        fit = res.fit_object
        post = fit.posterior_grid
        tp = env.timepoints
        ctx.prove("run:posterior_in_linear_space", post.probability_space == "linear")
        for u in env.nonfixed:
            row = [Q.of(x) for x in post[u]]
            for g in range(G):
                ctx.prove(f"run:post[{u}][{g}]=exact_probability", row[g] * Z == W[(int(u), g)])
            mean = sum((W[(int(u), g)] * tp[g] for g in range(1, G)), W[(int(u), 0)] * tp[0])
            ctx.prove(f"run:mean[{u}]", res.posterior_mean[u] * Z == mean)
            mu_ = res.posterior_mean[u]
            var = sum((W[(int(u), g)] * (tp[g] - mu_) * (tp[g] - mu_) for g in range(G)), Q.of(0))
            ctx.prove(f"run:var[{u}]", res.posterior_var[u] * Z == var)
        for s_ in ts.samples():
            ctx.prove(f"run:sample[{s_}]:mean", res.posterior_mean[s_] == float(ts.nodes_time[s_]))
            ctx.prove(f"run:sample[{s_}]:var", res.posterior_var[s_] == 0)
        ml = res.mutation_lik
        if isinstance(ml, LogQ):
            ctx.prove("run:marginal_likelihood", ml.q == Z)
        elif space != "linear":
            ctx.prove("run:marginal_likelihood", False, detail={"ml": repr(ml)})
        else:
            ctx.prove("run:marginal_likelihood", Q.of(ml) == Z)
        ctx.tag("run")


def h_logsumexp(ctx, k, ninf):
    """LogLikelihoods.logsumexp itself: every ordering of k finite entries plus `ninf`
    entries equal to -inf (positions given by the mask)."""
    from symx import load
    from symx.dom import sym, LogQ, Q
    discrete = load.tsdate_module("discrete")
    ntc = load.tsdate_module("node_time_class")
    mask = ninf  # tuple of bools: True => -inf at that position
    xs, qs = [], []
    j = 0
    for m in mask:
        if m:
            xs.append(-math.inf)
        else:
            q = sym(f"x{j}", "pos")
            j += 1
            qs.append(q)
            xs.append(LogQ.of_q(q))
    X = np.empty(len(xs), dtype=object)
    X[:] = xs
    with load.patched(discrete, ntc):
        try:
            r = discrete.LogLikelihoods.logsumexp(X)
        except Exception as e:
            ctx.fail("no-exception", detail={"exception": repr(e)})
            return
    if not qs:
        ctx.prove("logsumexp:all_-inf", isinstance(r, float) and r == -math.inf)
        return
    tot = sum(qs[1:], qs[0])
    if isinstance(r, LogQ):
        ctx.prove("logsumexp:value", r.q == tot)
    else:
        ctx.prove("logsumexp:value", False, detail={"returned": repr(r)})
    ctx.tag("lse")


def cases(tier):
    cs = []
    if tier == "quick":
        skels = ["cherry", "cat3", "bal4", "tri", "star4", "root_not_last", "cat4"]
        Gs = [3, 4]
    else:
        skels = ["cherry", "cat3", "bal4", "tri", "star4", "root_not_last", "cat4"] + \
            [f"shape{n}_{i}" for n in (3, 4, 5) for i in range(len(SK.all_shapes(n)))]
        Gs = [3, 4, 5]
    for sk in skels:
        for G in Gs:
            if tier == "thorough" and sk.startswith("shape5") and G > 4:
                continue
            for space in ("linear", "logarithmic"):
                for std in (True, False):
                    for cache in (False, True):
                        for zf in (True, False):
                            if tier == "quick" and (cache and not std):
                                continue
                            cs.append(Case(
                                f"exact:{sk}:G{G}:{space[:3]}:std{int(std)}:cache{int(cache)}:zf{int(zf)}",
                                h_exact, dict(skel=sk, G=G, space=space, std=std, cache=cache,
                                              zero_first=zf), weight=G * (2 if not zf else 1)))
    runs = [("cherry", 4), ("cat3", 3), ("tri", 4), ("root_not_last", 3)] if tier == "quick" else \
        [("cherry", 5), ("cat3", 4), ("tri", 5), ("root_not_last", 4), ("bal4", 3), ("cat4", 3),
         ("star4", 4)]
    for sk, G in runs:
        for space in ("linear", "logarithmic"):
            for zf in (True, False):
                cs.append(Case(f"run:{sk}:G{G}:{space[:3]}:zf{int(zf)}", h_run,
                               dict(skel=sk, G=G, space=space, std=True, cache=False,
                                    zero_first=zf), weight=40))
    kmax = 4 if tier == "quick" else 5
    for k in range(1, kmax + 1):
        for mask in itertools.product([False, True], repeat=k):
            cs.append(Case(f"logsumexp:{''.join('i' if m else 'x' for m in mask)}",
                           h_logsumexp, dict(k=k, ninf=tuple(mask))))
    return cs


def run(tier, seed, t0):
    from symx import npx
    cs = cases(tier)
    outs = common.run_cases(cs)
    return common.finish(
        "C10", tier, seed, t0, outs,
        explanation="The real Likelihoods/LogLikelihoods, BeliefPropagation.inside_pass/"
        "outside_pass and NodeTimeValues are executed on real single-tree tskit inputs with "
        "every prior cell, every timepoint gap, the mutation rate and eps symbolic and the "
        "Poisson pmf an uninterpreted positive function of (count, rate). The posterior of "
        "every non-sample node is proved proportional, as a rational function, to the "
        "brute-force sum over all ordered grid assignments, and the returned marginal "
        "likelihood equal to the brute-force normaliser (its log in logarithmic space). "
        "LogLikelihoods.logsumexp is verified on its own for every ordering and then replaced "
        "by its verified summary inside the belief-propagation runs.",
        functions=["tsdate.discrete.Likelihoods.*", "tsdate.discrete.LogLikelihoods.*",
                   "tsdate.discrete.BeliefPropagation.__init__/inside_pass/outside_pass",
                   "tsdate.core.InsideOutsideMethod.run", "tsdate.core.DiscreteTimeMethod.main_algorithm/mean_var",
                   "tsdate.node_time_class.NodeTimeValues.*"],
        bounds={"trees": sorted({c.kw["skel"] for c in cs if "skel" in c.kw}),
                "grid_sizes": sorted({c.kw["G"] for c in cs if "G" in c.kw}),
                "options": "probability_space x outside_standardize x cache_inside x "
                           "(first prior cell 0 | symbolic positive)",
                "logsumexp": "vectors of length <= %d, every subset of -inf entries, every "
                             "ordering of the finite entries" % (4 if tier == "quick" else 5),
                "values": "all positive prior cells, all increasing timegrids, all mu, eps > 0, "
                          "any positive likelihood function of (mutations, rate argument)"},
        stubs=["scipy.stats.poisson.pmf/logpmf -> memoised uninterpreted positive function",
               "np.max used as normaliser -> fresh positive symbol (assumes the true maximum "
               "is positive)", "LogLikelihoods.logsumexp -> verified summary log(sum exp) inside "
               "BP runs", "numpy via symx.npx proxy"],
        assumptions=["exact real arithmetic (no underflow/overflow/rounding)",
                     "tskit edge iteration order as returned by the installed tskit"],
        out_of_scope=["SciPy's Poisson evaluation", "floating-point underflow in linear space",
                      "trees with more than 5 leaves / grids with more than 5 points"],
        validated=npx.validate(),
        expect_tags=["exact", "lse", "run"],
    )


# ------------------------------------------------------------------ replay

def replay(payload):
    """Concrete differential run through the public API at the model's point: real Poisson,
    real tskit, compiled code; compares fit posteriors and likelihood with brute force."""
    import scipy.stats
    import tsdate
    kw = payload["case_kw"]
    m = common.model_floats(payload["model"])
    if payload["case"].startswith("logsumexp"):
        from tsdate.discrete import LogLikelihoods
        xs, j = [], 0
        for mk in kw["ninf"]:
            if mk:
                xs.append(-np.inf)
            else:
                xs.append(math.log(max(float(m.get(f"x{j}", 1.0)), 1e-300)))
                j += 1
        r = LogLikelihoods.logsumexp(np.array(xs))
        fin = [x for x in xs if x != -np.inf]
        want = -np.inf if not fin else float(np.log(np.sum(np.exp(fin))))
        ok = (r == want) or abs(r - want) <= 1e-9 * max(1.0, abs(want))
        return (not ok), f"logsumexp({xs}) = {r}, want {want}"
    ts = _ts_for(kw["skel"])
    # the model's point first (Poisson values cannot be chosen, the real pmf is used), then
    # a few well-conditioned points in its neighbourhood (rates giving lambda ~ O(1))
    infos = []
    for mu_o, eps_o in ((None, None), (0.05, 0.01), (0.2, 0.001), (0.01, 0.1)):
        rep, info = _replay_at(payload, kw, m, ts, mu_o, eps_o)
        infos.append(info)
        if rep is True or rep is None:
            return rep, info
    return False, " | ".join(infos)[-1500:]


def _replay_at(payload, kw, m, ts, mu_o, eps_o):
    import scipy.stats
    import tsdate
    G, space = kw["G"], kw["space"]
    tp = [0.0]
    for g in range(1, G):
        tp.append(tp[-1] + max(float(m.get(f"dt{g}", 1.0)), 1e-6))
    mu = max(float(m.get("mu", 0.3)), 1e-9) if mu_o is None else mu_o
    eps = max(float(m.get("eps", 1e-3)), 1e-12) if eps_o is None else eps_o
    pri = tsdate.build_prior_grid(ts, population_size=1, timepoints=np.array(tp))
    for u in pri.nonfixed_nodes:
        row = [max(float(m.get(f"pr{u}_{g}", 1.0)), 1e-12) for g in range(G)]
        if kw.get("zero_first", True):
            row[0] = 0.0
        pri[u] = np.array(row)
    try:
        dated, fit, lik = tsdate.inside_outside(
            ts, mutation_rate=mu, priors=pri, eps=eps, probability_space=space,
            outside_standardize=kw["std"], cache_inside=kw["cache"], return_fit=True,
            return_likelihood=True)
    except Exception as e:
        return (payload["obligation"] == "no-exception"), f"raised {e!r}"
    if payload["obligation"] == "no-exception":
        return False, "no exception"
    post = fit.posterior_grid
    tpr = fit.lik.timepoints
    internal = [int(u) for u in pri.nonfixed_nodes]
    samples = set(int(s) for s in ts.samples())
    mut_edges = fit.lik.mut_edges
    pr = {}
    # prior rows as given (the fit may have converted them in place)
    for u in internal:
        row = [max(float(m.get(f"pr{u}_{g}", 1.0)), 1e-12) for g in range(G)]
        if kw.get("zero_first", True):
            row[0] = 0.0
        pr[u] = row
    W = {(u, g): 0.0 for u in internal for g in range(G)}
    Z = 0.0
    for assign in itertools.product(range(G), repeat=len(internal)):
        idx = dict(zip(internal, assign))
        w = 1.0
        for e in ts.edges():
            gp = idx[e.parent]
            gc = 0 if e.child in samples else idx[e.child]
            if gp < gc:
                w = 0.0
                break
            w *= scipy.stats.poisson.pmf(mut_edges[e.id], (tpr[gp] - tpr[gc] + eps) * mu * e.span)
        if w == 0.0:
            continue
        for u in internal:
            w *= pr[u][idx[u]]
        Z += w
        for u in internal:
            W[(u, idx[u])] += w
    bad = []
    for u in internal:
        row = np.asarray(post[u], dtype=float)
        for g in range(G):
            want = W[(u, g)] / Z
            if want < 1e-250 and row[g] < 1e-250:
                continue
            if not abs(row[g] - want) <= 1e-6 * abs(want):
                bad.append((u, g, float(row[g]), want))
    for u in internal:   # mean / variance as written to the metadata
        md = dated.node(u).metadata
        mean = sum(W[(u, g)] / Z * tpr[g] for g in range(G))
        var = sum(W[(u, g)] / Z * (tpr[g] - mean) ** 2 for g in range(G))
        if not abs(md["mn"] - mean) <= 1e-6 * abs(mean) + 1e-300:
            bad.append(("mn", u, md["mn"], mean))
        if not abs(md["vr"] - var) <= 1e-5 * abs(var) + 1e-300:
            bad.append(("vr", u, md["vr"], var))
    want_l = Z if space == "linear" else math.log(Z)
    if not abs(lik - want_l) <= 1e-7 * max(1.0, abs(want_l)):
        bad.append(("likelihood", float(lik), want_l))
    return bool(bad), f"tp={tp} mu={mu} eps={eps}: {bad[:4]}"
