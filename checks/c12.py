"""C12 - linear and logarithmic probability spaces agree (inside_outside and maximization)."""
import math

import numpy as np

from checks import common
from checks import discrete_h as D
from checks.c10 import _ts_for
from checks.common import Case


def _run(env, ts, kind, space, eps, cache=False, std=True):
    m = D.make_method(env, ts, kind)
    if kind == "inside_outside":
        return m.run(eps=eps, outside_standardize=std, ignore_oldest_root=False,
                     probability_space=space, num_threads=None, cache_inside=cache)
    return m.run(eps=eps, probability_space=space, num_threads=None, cache_inside=cache)


def h_agree(ctx, skel, G, kind, zero_first=True, cache=False, std=True):
    from symx.dom import LogQ, Q
    ts = _ts_for(skel)
    out = {}
    for space in ("linear", "logarithmic"):
        with D.setup(ctx, ts, G, space, zero_first=zero_first, build="method") as env:
            try:
                out[space] = (_run(env, ts, kind, space, env.eps, cache, std), env)
            except Exception as e:
                ctx.fail(f"no-exception:{space}", detail={"exception": repr(e)})
                return
    (rl, el), (rg, eg) = out["linear"], out["logarithmic"]
    n = ts.num_nodes
    for u in range(n):
        ctx.prove(f"{kind}:mean[{u}]", Q.of(rl.posterior_mean[u]) == rg.posterior_mean[u])
    if kind == "inside_outside":
        for u in range(n):
            ctx.prove(f"{kind}:var[{u}]", Q.of(rl.posterior_var[u]) == rg.posterior_var[u])
        pl, pg = rl.fit_object.posterior_grid, rg.fit_object.posterior_grid
        ctx.prove("io:both_grids_linear", pl.probability_space == pg.probability_space == "linear")
        for u in el.nonfixed:
            for g in range(G):
                ctx.prove(f"io:post[{u}][{g}]", Q.of(pl[u][g]) == pg[u][g])
    ml, mg = rl.mutation_lik, rg.mutation_lik
    if isinstance(mg, LogQ):
        ctx.prove(f"{kind}:exp(log_marginal)=marginal", mg.q == ml)
    else:
        ctx.prove(f"{kind}:exp(log_marginal)=marginal", False, detail={"log": repr(mg)})
    ctx.tag(kind)


def cases(tier):
    cs = []
    if tier == "quick":
        io = [("cherry", 4), ("cat3", 3), ("tri", 3), ("two_tree", 3)]
        mx = [("cherry", 4), ("cat3", 3), ("tri", 4), ("two_parents", 3)]
    else:
        io = [("cherry", 5), ("cat3", 4), ("tri", 4), ("two_tree", 3), ("bal4", 3),
              ("two_parents", 3), ("root_not_last", 3), ("star4", 4)]
        mx = [("cherry", 5), ("cat3", 4), ("tri", 5), ("two_parents", 4), ("two_tree", 3),
              ("bal4", 3), ("root_not_last", 4)]
    for sk, G in io:
        for zf in (True, False):
            for cache, std in ((False, True), (True, True), (True, False)):
                cs.append(Case(f"io:{sk}:G{G}:zf{int(zf)}:cache{int(cache)}:std{int(std)}", h_agree,
                               dict(skel=sk, G=G, kind="inside_outside", zero_first=zf,
                                    cache=cache, std=std), weight=G))
    for sk, G in mx:
        for zf in (True, False):
            cs.append(Case(f"max:{sk}:G{G}:zf{int(zf)}", h_agree,
                           dict(skel=sk, G=G, kind="maximization", zero_first=zf), weight=G))
    return cs


def run(tier, seed, t0):
    from symx import npx
    cs = cases(tier)
    outs = common.run_cases(cs)
    return common.finish(
        "C12", tier, seed, t0, outs,
        explanation="core.InsideOutsideMethod.run and core.MaximizationMethod.run are executed "
        "twice on the same real tskit input - once with Likelihoods (linear) and once with "
        "LogLikelihoods (logarithmic) - sharing every symbol (prior cells, timepoints, rate, eps, "
        "uninterpreted Poisson values).  z3 proves cell-by-cell equality of the final posterior "
        "probabilities, means, variances, the chosen maximization timepoints and "
        "exp(log marginal) = marginal on every path (paths fork on the row maxima / arg-maxima).",
        functions=["tsdate.core.InsideOutsideMethod.run", "tsdate.core.MaximizationMethod.run",
                   "tsdate.core.DiscreteTimeMethod.main_algorithm/mean_var",
                   "tsdate.discrete.Likelihoods/LogLikelihoods/BeliefPropagation (inside_pass, "
                   "outside_pass, outside_maximization)",
                   "tsdate.node_time_class.NodeTimeValues.force_probability_space/standardize/"
                   "to_probabilities"],
        bounds={"inputs": sorted({c.kw["skel"] for c in cs}), "grid": "3-4 quick, 3-5 thorough",
                "prior_cell_0": "0 and symbolic positive"},
        stubs=["scipy.stats.poisson -> shared uninterpreted positive function",
               "np.max normalisers -> fresh positive symbols",
               "logsumexp -> verified summary (C10)", "value**fraction for non-integer span "
               "fractions -> uninterpreted power (multi-tree inputs)"],
        assumptions=["exact real arithmetic: the statement's proviso 'linear space neither "
                     "underflows nor overflows' is built in"],
        out_of_scope=["floating-point rounding, underflow", "inputs with > 7 nodes"],
        validated=npx.validate(),
        expect_tags=["inside_outside", "maximization"],
    )


def replay(payload):
    """Public API in both spaces at the model's point; compares node times and metadata."""
    import tsdate
    kw = payload["case_kw"]
    m = common.model_floats(payload["model"])
    ts = _ts_for(kw["skel"])
    G = kw["G"]
    infos = []
    for mu, eps in ((max(float(m.get("mu", 0.3)), 1e-9), max(float(m.get("eps", 1e-3)), 1e-12)),
                    (0.05, 0.01), (0.2, 0.001)):
        tp = [0.0]
        for g in range(1, G):
            tp.append(tp[-1] + max(float(m.get(f"dt{g}", 1.0)), 1e-6))
        res = {}
        for space in ("linear", "logarithmic"):
            pri = tsdate.build_prior_grid(ts, population_size=1, timepoints=np.array(tp))
            for u in pri.nonfixed_nodes:
                row = [max(float(m.get(f"pr{u}_{g}", 1.0)), 1e-12) for g in range(G)]
                if kw.get("zero_first", True):
                    row[0] = 0.0
                pri[u] = np.array(row)
            f = tsdate.inside_outside if kw["kind"] == "inside_outside" else tsdate.maximization
            try:
                extra = dict(cache_inside=kw.get("cache", False))
                if kw["kind"] == "inside_outside":
                    extra["outside_standardize"] = kw.get("std", True)
                res[space] = f(ts, mutation_rate=mu, priors=pri, eps=eps, probability_space=space,
                               return_fit=True, return_likelihood=True, **extra)
            except Exception as e:
                return True, f"{space} raised {e!r}"
        (tl, fl, ll), (tg, fg, lg) = res["linear"], res["logarithmic"]
        bad = []
        if not np.allclose(tl.nodes_time, tg.nodes_time, rtol=1e-7, atol=0):
            bad.append(("times", tl.nodes_time.tolist(), tg.nodes_time.tolist()))
        if kw["kind"] == "inside_outside":
            a, b = fl.posterior_grid.grid_data, fg.posterior_grid.grid_data
            if not np.allclose(a, b, rtol=1e-6, atol=1e-300):
                bad.append(("posterior", a.tolist(), b.tolist()))
        if not abs(math.log(ll) - lg) <= 1e-7 * max(1.0, abs(lg)):
            bad.append(("likelihood", ll, lg))
        if bad:
            return True, f"mu={mu} eps={eps} tp={tp}: {str(bad)[:600]}"
        infos.append(f"agree at mu={mu} eps={eps}")
    return False, "; ".join(infos)
