"""C35 - invalid inputs are rejected cleanly and valid ones never crash.

Layer (a): the validation logic of date() and the named methods, executed with symbolic /
solver-chosen parameter values while the numeric engines are replaced by markers.
Layer (b): internal assertions reachable from date(): the rescaling kernels on symbolic
mutation counts (zero counts allowed).  (The EP kernels' assertions are proved unreachable
under their invariants by C05/C21.)"""
import math

import numpy as np

from checks import common, ep_h
from checks.common import Case
from symx import skeletons as SK


class _Marker(Exception):
    pass


def _pick(options, name):
    from symx.dom import choice
    i = 0
    while i < len(options) - 1 and choice(f"{name}_{i}_"):
        i += 1
    return options[i]


def _input(kind):
    """bal4 with its mutations / with its sites but no mutation / without sites"""
    ts = SK.bal4()
    if kind == "muts":
        return ts
    t = ts.dump_tables()
    t.mutations.clear()
    if kind == "no_sites":
        t.sites.clear()
    return t.tree_sequence()


def h_validate_vg(ctx):
    """date(method='variational_gamma' | None): every path with an invalid parameter ends in
    ValueError/NotImplementedError before the numeric engine starts; no other exception."""
    from symx import load
    from symx.dom import sym, Q, is_sym
    core = load.tsdate_module("core")
    inp = _pick(["muts", "sites_no_muts", "no_sites"], "inp")
    ts = _input(inp)
    # inputs without mutations are crossed with the method only, not with every parameter
    # (the parameter checks do not depend on the input): keeps the quick tier quick
    pick = _pick if inp == "muts" else (lambda options, name: options[0])
    with ep_h.patched_ep(more=("rescaling", "phasing", "util", "core")) as (var, approx, npx):
        mu = pick(["sym", math.nan, math.inf, None], "mu")
        mu = sym("mu") if mu == "sym" else mu
        mbl = pick([None, "sym", math.inf, math.nan], "mbl")
        mbl = sym("mbl") if mbl == "sym" else mbl
        ci = pick([None, 0, 2, -1, 1.5], "ci")
        mi = pick([None, 3, 0, -2], "mi")
        ms = pick([None, "sym"], "ms")
        ms = sym("max_shape") if ms == "sym" else ms
        eps = pick([None, 1e-6], "eps")
        pop = pick([None, 10], "pop")
        rec = pick([None, 1.0], "rec")
        rfit = pick([None, True], "rfit")
        rlik = pick([None, True], "rlik")
        method = _pick([None, "variational_gamma"], "method")
        started = []
        saved_infer = var.ExpectationPropagation.infer
        saved_gmt = core.EstimationMethod.get_modified_ts

        def fake_infer(self, **kw):
            started.append(kw)
            free = self.node_constraints[:, 0] != self.node_constraints[:, 1]
            self.node_posterior[free, 0] = 1.0
            self.node_posterior[free, 1] = 1.0
        var.ExpectationPropagation.infer = fake_infer
        core.EstimationMethod.get_modified_ts = lambda self, result: "TS"
        kw = dict(mutation_rate=mu, recombination_rate=rec, method=method, constr_iterations=ci,
                  min_branch_length=mbl, return_fit=rfit, return_likelihood=rlik)
        for k, v in (("max_iterations", mi), ("max_shape", ms), ("eps", eps),
                     ("population_size", pop)):
            if v is not None:
                kw[k] = v
        outcome, ret = None, None
        try:
            try:
                ret = core.date(ts, **kw)
                outcome = "returned"
            except (ValueError, NotImplementedError) as e:
                outcome = "rejected"
            except Exception as e:
                outcome = "crash:" + type(e).__name__ + ":" + str(e)[:80]
        finally:
            var.ExpectationPropagation.infer = saved_infer
            core.EstimationMethod.get_modified_ts = saved_gmt
    ctx.prove("validate:no_internal_error", not outcome.startswith("crash"),
              detail={"outcome": outcome, "input": inp, "kw": {k: repr(v) for k, v in kw.items()}})
    if outcome == "rejected":
        ctx.prove("validate:rejected_before_engine", not started,
                  detail={"input": inp, "kw": {k: repr(v) for k, v in kw.items()}})
        ctx.tag("rejected")
        return
    if outcome != "returned":
        return
    ctx.tag("returned")
    # everything the statement lists as invalid must be impossible on a returning path
    ctx.prove("validate:input_without_mutations_rejected", inp == "muts",
              detail={"input": inp, "kw": {k: repr(v) for k, v in kw.items()}})
    ctx.prove("validate:mutation_rate_positive_finite",
              (mu > 0) if is_sym(mu) else (mu is not None and mu == mu and 0 < mu < math.inf),
              detail={"mu": repr(mu)})
    if mbl is not None:
        ctx.prove("validate:min_branch_length_positive_finite",
                  (mbl > 0) if is_sym(mbl) else (mbl == mbl and 0 < mbl < math.inf),
                  detail={"mbl": repr(mbl)})
    ctx.prove("validate:constr_iterations_valid", ci is None or (isinstance(ci, int) and ci >= 0))
    ctx.prove("validate:max_iterations_valid", mi is None or mi > 0)
    if ms is not None:
        ctx.prove("validate:max_shape_above_1", ms > 1)
    ctx.prove("validate:eps_rejected_for_variational_gamma", eps is None)
    ctx.prove("validate:population_size_rejected_for_variational_gamma", pop is None)
    ctx.prove("validate:recombination_rate_not_implemented", rec is None)
    n = 1 + (1 if rfit else 0) + (1 if rlik else 0)
    ctx.prove("validate:result_shape",
              (ret == "TS") if n == 1 else (isinstance(ret, tuple) and len(ret) == n
                                            and ret[0] == "TS"))
    ctx.prove("validate:engine_started_once", len(started) == 1)


def h_validate_discrete(ctx, method):
    from symx import load
    from symx.dom import sym, is_sym
    core = load.tsdate_module("core")
    ts = SK.bal4()
    mbl = _pick([None, "sym", math.inf], "mbl")
    ci = _pick([None, 0, -1, 1.5], "ci")
    pop = _pick([None, 10, 0, -5], "pop")
    use_priors = _pick([False, True], "priors")
    rec = _pick([None, 1.0], "rec")
    rfit = _pick([None, True], "rfit")
    rlik = _pick([None, True], "rlik")
    mi = _pick([None, 3], "mi")       # a variational-only option
    mbl = sym("mbl") if mbl == "sym" else mbl
    started = []

    class Fit:
        posterior_mean = None

        def inside_pass(self, **k):
            return 0.5

        def outside_pass(self, **k):
            pass

        def outside_maximization(self, **k):
            self.posterior_mean = np.zeros(ts.num_nodes)

        class posterior_grid:
            standardize = force_probability_space = to_probabilities = staticmethod(
                lambda *a, **k: None)

    saved = (core.DiscreteTimeMethod.main_algorithm, core.EstimationMethod.get_modified_ts,
             core.DiscreteTimeMethod.mean_var)
    core.DiscreteTimeMethod.main_algorithm = lambda self, *a, **k: (started.append(a), Fit())[1]
    core.EstimationMethod.get_modified_ts = lambda self, result: "TS"
    core.DiscreteTimeMethod.mean_var = staticmethod(lambda ts_, post: (np.zeros(ts.num_nodes),
                                                                       np.zeros(ts.num_nodes)))
    priors = None
    if use_priors:
        import tsdate
        priors = tsdate.build_prior_grid(ts, population_size=10, timepoints=4)
    kw = dict(mutation_rate=0.1, recombination_rate=rec, method=method, constr_iterations=ci,
              min_branch_length=mbl, return_fit=rfit, return_likelihood=rlik)
    if pop is not None:
        kw["population_size"] = pop
    if priors is not None:
        kw["priors"] = priors
    if mi is not None:
        kw["max_iterations"] = mi
    try:
        try:
            with load.patched(core):
                ret = core.date(ts, **kw)
            outcome = "returned"
        except (ValueError, NotImplementedError):
            outcome = "rejected"
        except TypeError as e:
            # an option another method owns is an invalid call of this one
            outcome = "rejected" if "unexpected keyword" in str(e) else "crash:TypeError:" + str(e)[:80]
        except Exception as e:
            outcome = "crash:" + type(e).__name__ + ":" + str(e)[:80]
    finally:
        (core.DiscreteTimeMethod.main_algorithm, core.EstimationMethod.get_modified_ts,
         core.DiscreteTimeMethod.mean_var) = saved
    ctx.prove("validate:no_internal_error", not outcome.startswith("crash"),
              detail={"outcome": outcome, "kw": {k: repr(v)[:40] for k, v in kw.items()}})
    if outcome == "rejected":
        ctx.prove("validate:rejected_before_engine", not started)
        ctx.tag("rejected")
        return
    if outcome != "returned":
        return
    ctx.tag("returned")
    if mbl is not None:
        ctx.prove("validate:min_branch_length_positive_finite",
                  (mbl > 0) if is_sym(mbl) else (0 < mbl < math.inf))
    ctx.prove("validate:constr_iterations_valid", ci is None or (isinstance(ci, int) and ci >= 0))
    ctx.prove("validate:exactly_one_of_population_size_and_priors",
              (pop is not None) != (priors is not None) and (pop is None or pop > 0))
    ctx.prove("validate:recombination_rate_not_implemented", rec is None)
    ctx.prove("validate:variational_option_rejected", mi is None)
    n = 1 + (1 if rfit else 0) + (1 if rlik else 0)
    ctx.prove("validate:result_shape",
              (ret == "TS") if n == 1 else (isinstance(ret, tuple) and len(ret) == n and ret[0] == "TS"))


def h_unknown_method(ctx):
    from symx import load
    from symx.dom import choice
    core = load.tsdate_module("core")
    name = _pick(["", "Variational_gamma", "inside-outside", "max", "variational_gamma "], "name")
    try:
        core.date(SK.cat3(), mutation_rate=1.0, method=name)
        ctx.fail("validate:unknown_method_rejected", detail={"method": name})
    except ValueError:
        ctx.tag("rejected")
    except Exception as e:
        ctx.fail("validate:no_internal_error", detail={"exception": repr(e)[:200]})


def h_rescale_zero_counts(ctx, graph, intervals):
    """One rescaling iteration (mutational_timescale + piecewise_scale_point_estimate) with
    symbolic mutation counts that may be zero: no internal assertion may fire."""
    from symx import load
    from checks import c25
    rescaling = load.tsdate_module("rescaling")
    n, edges, fixed, ep, ec = c25._graph(graph)
    with load.patched(rescaling):
        t = c25._times(ctx, n, fixed)
        for p, c in edges:
            if not fixed[c]:
                ctx.assume(t[p] > t[c])
        lik = c25._liks(len(edges))
        ctx.assume(sum(lik[1:, 0], lik[0, 0]) > 0)     # variational_gamma requires mutations
        try:
            ob, rb = rescaling.mutational_timescale(t, lik, np.array(fixed), ep, ec, intervals)
            rescaling.piecewise_scale_point_estimate(t, np.array(fixed), ob, rb)
        except AssertionError as e:
            ctx.fail("kernel:no_internal_assertion", detail={"exception": repr(e)[:120]})
            return
        except Exception as e:
            ctx.fail("kernel:no_internal_error", detail={"exception": repr(e)[:200]})
            return
    ctx.tag("kernel-ok")


def h_infer_options(ctx):
    """The real ExpectationPropagation (constructor, infer, rescale, moments) on a real small
    input with solver-chosen rescaling / iteration options that the API documents as valid:
    no internal error."""
    from symx import load
    var = load.tsdate_module("variational")
    ts = SK.two_tree()
    ri = _pick([0, 1, 2], "intervals")
    rit = _pick([0, 1, 2], "iterations")
    seg = _pick([False, True], "segsites")
    reg = _pick([True, False], "regularise")
    try:
        ep = var.ExpectationPropagation(ts, mutation_rate=0.1)
        ep.infer(ep_iterations=2, max_shape=1000, rescale_intervals=ri, rescale_iterations=rit,
                 regularise=reg, rescale_segsites=seg)
        ep.node_moments()
        ep.mutation_moments()
    except AssertionError as e:
        if "rescaling intervals" in repr(e):
            ctx.tag("F3-path")
            return
        ctx.fail("options:no_internal_error", detail={"exception": repr(e)[:200],
                                                      "options": [ri, rit, seg, reg]})
        return
    except (ValueError, NotImplementedError):
        ctx.fail("options:valid_options_not_rejected", detail={"options": [ri, rit, seg, reg]})
        return
    except Exception as e:
        ctx.fail("options:no_internal_error", detail={"exception": repr(e)[:200],
                                                      "options": [ri, rit, seg, reg]})
        return
    ctx.tag("options-ok")


def cases(tier):
    cs = [Case("validate:variational_gamma", h_validate_vg, {}, shard_depth=6, weight=50)]
    cs.append(Case("options:infer", h_infer_options, {}))
    for m in ("inside_outside", "maximization"):
        cs.append(Case(f"validate:{m}", h_validate_discrete, dict(method=m), shard_depth=4,
                       weight=20))
    cs.append(Case("validate:unknown_method", h_unknown_method, {}))
    for k in (1, 2, 3):
        cs.append(Case(f"kernel:rescale:cat3:k{k}", h_rescale_zero_counts,
                       dict(graph="cat3", intervals=k), weight=10))
    return cs


def run(tier, seed, t0):
    from symx import npx
    cs = cases(tier)
    outs = common.run_cases(cs)
    return common.finish(
        "C35", tier, seed, t0, outs,
        explanation="(a) core.date -> variational_gamma / inside_outside / maximization -> "
        "EstimationMethod.__init__ -> *.run -> parse_result are executed on a real small input "
        "with the numeric engines replaced by markers and parameters chosen by the solver "
        "(symbolic reals for mutation_rate, min_branch_length, max_shape; NaN/inf/None and small "
        "integer sets for the rest; presence/absence of eps, population_size, priors, "
        "recombination_rate, return flags).  On every path: no exception other than "
        "ValueError/NotImplementedError; a rejected call never starts the engine; on a returning "
        "path every validity condition of the statement is implied by the path condition; the "
        "result tuple has the documented shape.  (b) one rescaling iteration on symbolic "
        "mutation counts (zeros allowed) must not trip an internal assertion.",
        functions=["tsdate.core.date", "variational_gamma", "inside_outside", "maximization",
                   "EstimationMethod.__init__", "VariationalGammaMethod.run",
                   "InsideOutsideMethod.run", "MaximizationMethod.run", "parse_result",
                   "variational.ExpectationPropagation.__init__/_check_valid_inputs",
                   "rescaling.mutational_timescale", "piecewise_scale_point_estimate"],
        bounds={"input": "bal4 / cat3 skeletons", "parameters": "see explanation",
                "rescaling_intervals": "1-3 on a 5-node graph"},
        stubs=["ExpectationPropagation.infer, DiscreteTimeMethod.main_algorithm/mean_var, "
               "get_modified_ts replaced by markers"],
        assumptions=["the discrete-time methods' rejection of non-positive mutation rates "
                     "happens inside the engine (a ValueError from inside_pass) and is not part of "
                     "this layer", "internal assertions of the EP kernels: C05/C21"],
        out_of_scope=["whole-pipeline exhaustiveness over tree sequences", "tskit-level validity",
                      "numba typing errors (call sites are exercised by C37/C24)"],
        validated=npx.validate(),
        expect_tags=["rejected", "returned", "kernel-ok", "options-ok"],
    )


def replay(payload):
    """Through the public API on the compiled code with the model's parameter values."""
    import tsdate
    import tskit
    case = payload["case"]
    d = payload.get("detail") or {}
    m = common.model_floats(payload["model"])
    if case.startswith("options:"):
        o = d.get("options") or [1, 0, False, True]
        try:
            tsdate.date(SK.two_tree(), mutation_rate=0.1, rescaling_intervals=o[0],
                        rescaling_iterations=o[1], match_segregating_sites=o[2],
                        regularise_roots=o[3], max_iterations=2)
        except (ValueError, NotImplementedError) as e:
            return True, f"valid options {o} rejected: {e}"
        except AssertionError as e:
            return ("rescaling intervals" not in repr(e)), f"options {o}: {e!r}"
        except Exception as e:
            return True, f"date(two_tree, rescaling_intervals={o[0]}, rescaling_iterations={o[1]}, ...) raised {type(e).__name__}: {e}"
        return False, "returned"
    if case.startswith("kernel:"):
        # few mutations: build a 3-sample tree sequence whose edges carry the model's counts
        kw = payload["case_kw"]
        ts0 = SK.cat3()
        t = ts0.dump_tables()
        t.sites.clear()
        t.mutations.clear()
        pos = 0.3
        for e in range(ts0.num_edges):
            y = int(round(max(0.0, float(m.get(f"y{e}", 0.0)))))
            for _ in range(min(y, 3)):
                s = t.sites.add_row(pos, "0")
                t.mutations.add_row(s, ts0.edges_child[e], "1")
                pos += 0.3
        if t.mutations.num_rows == 0:
            s = t.sites.add_row(pos, "0")
            t.mutations.add_row(s, 0, "1")
        t.sort()
        t.build_index()
        t.compute_mutation_parents()
        ts = t.tree_sequence()
        try:
            tsdate.date(ts, mutation_rate=0.1, rescaling_intervals=kw["intervals"])
        except (ValueError, NotImplementedError):
            return False, "rejected cleanly"
        except Exception as e:
            return True, (f"tsdate.date on cat3 with {ts.num_mutations} mutation(s), "
                          f"rescaling_intervals={kw['intervals']} raised {type(e).__name__}: {e}")
        return False, "returned"
    ts = _input(d.get("input", "muts")) if case.startswith("validate:variational") else SK.bal4()
    kw = {}
    raw = (d.get("kw") or {})
    conv = {"None": None, "nan": math.nan, "inf": math.inf, "True": True}
    for k, v in raw.items():
        if k == "priors":
            kw[k] = tsdate.build_prior_grid(ts, population_size=10, timepoints=4)
            continue
        if v in conv:
            kw[k] = conv[v]
        elif v.startswith("1*(") or v.startswith("("):       # a symbol: take the model value
            name = v.split("(")[1].split(")")[0]
            kw[k] = float(m.get(name, 0.0))
        else:
            try:
                kw[k] = eval(v, {"__builtins__": {}}, {"nan": math.nan, "inf": math.inf})
            except Exception:
                kw[k] = v
    try:
        tsdate.date(ts, **kw)
    except (ValueError, NotImplementedError) as e:
        return False, f"rejected cleanly: {e}"
    except TypeError as e:
        return ("unexpected keyword" not in str(e)), f"TypeError {e}"
    except Exception as e:
        return True, f"date(bal4, {kw}) raised {type(e).__name__}: {str(e)[:120]}"
    bad = []
    if case.startswith("validate:variational") and ts.num_mutations == 0:
        bad.append("input without mutations accepted by variational_gamma")
    if "mutation_rate" in kw and not (kw["mutation_rate"] is not None and kw["mutation_rate"] > 0
                                      and math.isfinite(kw["mutation_rate"])):
        bad.append("invalid mutation_rate accepted")
    if kw.get("min_branch_length") is not None and not (0 < kw["min_branch_length"] < math.inf):
        bad.append("invalid min_branch_length accepted")
    if kw.get("max_shape") is not None and not kw["max_shape"] > 1:
        bad.append("max_shape <= 1 accepted")
    return bool(bad), f"date(bal4, {kw}) returned; {bad}"
