"""C23 - rescaling credits each unphased singleton to its two branches by phase probability."""
import math

import numpy as np

from checks import common, ep_h
from checks.common import Case


class _Stop(Exception):
    pass


# edges 0..5; blocks: b0 = (edge0, edge1), b1 = (edge2, edge3); edges 4,5 are phased
# singletons: name -> list of (block, input edge)
LAYOUTS = {
    "one_per_block": [(0, 0), (1, 3)],
    "two_in_block": [(0, 0), (0, 1)],
    "three_mixed": [(0, 1), (1, 2), (1, 2)],
    # one haplotype's leaf edge (edge 0) persists while the other changes: two blocks share it
    "shared_edge": [(0, 0), (1, 0), (1, 3)],
}
BLOCK_EDGES = {"shared_edge": [[0, 1], [0, 3]]}


def h_realloc(ctx, layout, segsites, through="infer+rescale", nan_first=False):
    """Real infer (flip block) followed by the real rescale up to reallocate_unphased."""
    from symx.dom import sym, Q
    muts = LAYOUTS[layout]
    nm = len(muts) + 1          # plus one phased mutation on edge 4
    with ep_h.patched_ep(more=("phasing", "rescaling")) as (var, approx, npx):
        obj = object.__new__(var.ExpectationPropagation)
        obj.mutation_blocks = np.array([b for b, e in muts] + [-1], dtype=np.int32)
        obj.mutation_order = np.arange(nm, dtype=np.int32)
        obj.mutation_posterior = npx.full((nm, 2), math.nan)
        obj.mutation_phase = npx.ones(nm)
        obj.mutation_edges = np.array([e for b, e in muts] + [4], dtype=np.int32)
        obj.mutation_nodes = obj.mutation_edges.copy()
        obj.block_edges = np.array(BLOCK_EDGES.get(layout, [[0, 1], [2, 3]]), dtype=np.int32)
        obj.block_nodes = np.array([[6, 6], [7, 8]], dtype=np.int32)
        obj.block_likelihoods = npx.zeros((2, 2))
        obj.edge_children = np.arange(6, dtype=np.int32)
        obj.edge_parents = np.array([6, 7, 6, 8, 7, 8], dtype=np.int32)
        unph_edges = set(int(x) for x in obj.block_edges.ravel())
        lik = {}
        for nm_ in ("edge_likelihoods", "sizebiased_likelihoods"):
            a = npx.zeros((6, 2))
            for e in range(6):
                a[e, 1] = sym(f"{nm_[:2]}span{e}", "pos")
                if e in unph_edges:   # unphased leaf edges: the input count is the singleton count
                    a[e, 0] = float(sum(1 for b, ee in muts if ee == e))
                else:
                    a[e, 0] = sym(f"{nm_[:2]}y{e}", "nonneg")
            setattr(obj, nm_, a)
            lik[nm_] = a.copy()
        obj.edge_logconst = npx.zeros(6)
        obj.node_constraints = npx.zeros((9, 2))
        obj.node_posterior = npx.zeros((9, 2))
        obj.factors = None
        obj.iterate = lambda **kw: None
        phases = {}

        def prop_mut(order, post, phase, *a):
            if a[-1]:
                for m in order:
                    if nan_first is not False and int(m) == (0 if nan_first is True else int(nan_first)):
                        # the projection was rejected numerically: phase undefined
                        phase[m] = math.nan
                        phases[int(m)] = None
                        continue
                    p = sym(f"phase{m}", "nonneg")
                    ctx.assume(p <= 1)
                    phase[m] = p
                    phases[int(m)] = p
        obj.propagate_mutations = prop_mut
        saved = var.mutational_timescale

        def stop(*a, **k):
            raise _Stop()
        var.mutational_timescale = stop
        try:
            try:
                obj.infer(ep_iterations=1, max_shape=1000, rescale_intervals=3,
                          rescale_iterations=1, regularise=True, rescale_segsites=segsites)
            except _Stop:
                pass
            except Exception as e:
                ctx.fail("no-exception", detail={"exception": repr(e)[:300]})
                return
        finally:
            var.mutational_timescale = saved
        used = obj.edge_likelihoods if segsites else obj.sizebiased_likelihoods
        other = obj.sizebiased_likelihoods if segsites else obj.edge_likelihoods
        before = lik["edge_likelihoods" if segsites else "sizebiased_likelihoods"]
        before_other = lik["sizebiased_likelihoods" if segsites else "edge_likelihoods"]
        for e in sorted(set(range(6)) - unph_edges):
            ctx.prove(f"realloc:phased_edge[{e}]_unchanged", Q.of(used[e, 0]) == before[e, 0])
        for e in range(6):
            ctx.prove(f"realloc:span[{e}]_unchanged", Q.of(used[e, 1]) == before[e, 1])
            ctx.prove(f"realloc:other_array[{e}]_untouched",
                      (Q.of(other[e, 0]) == before_other[e, 0]))
        # every unphased edge receives, from each singleton of each block it belongs to, the
        # fitted probability of that singleton lying on it
        want = {e: Q.of(0) for e in unph_edges}
        for m, (b, _) in enumerate(muts):
            i, j = int(obj.block_edges[b, 0]), int(obj.block_edges[b, 1])
            if phases[m] is None:
                # undefined phase: the singleton is placed on the block's first edge and must
                # still count exactly once
                ctx.prove(f"realloc:mutation[{m}]:undefined_phase_placed_on_first_edge",
                          int(obj.mutation_edges[m]) == i)
                want[i] = want[i] + 1
                continue
            want[i] = want[i] + phases[m]
            want[j] = want[j] + (1 - phases[m])
        for e in sorted(unph_edges):
            ctx.prove(f"realloc:edge[{e}]:sum_of_fitted_probabilities", Q.of(used[e, 0]) == want[e])
        ctx.prove("realloc:total_is_number_of_singletons",
                  sum((Q.of(used[e, 0]) for e in sorted(unph_edges)), Q.of(0)) == len(muts))
        for b in (0, 1):
            if layout in BLOCK_EDGES:
                break
            k = sum(1 for bb, _ in muts if bb == b)
            i, j = int(obj.block_edges[b, 0]), int(obj.block_edges[b, 1])
            ctx.prove(f"realloc:block[{b}]:total_is_number_of_singletons",
                      Q.of(used[i, 0]) + used[j, 0] == k)
            ctx.prove(f"realloc:block[{b}]:shares_nonnegative",
                      (Q.of(used[i, 0]) >= 0) & (Q.of(used[j, 0]) >= 0)
                      if not isinstance(Q.of(used[i, 0]) >= 0, bool) or
                      not isinstance(Q.of(used[j, 0]) >= 0, bool)
                      else (Q.of(used[i, 0]) >= 0) and (Q.of(used[j, 0]) >= 0))
        # the branch a singleton is finally placed on gets the larger share
        for m, (b, _) in enumerate(muts):
            placed = int(obj.mutation_edges[m])
            k = sum(1 for bb, _ in muts if bb == b)
            if k == 1 and layout not in BLOCK_EDGES and phases[m] is not None:
                ctx.prove(f"realloc:mutation[{m}]:placed_edge_gets_larger_share",
                          Q.of(used[placed, 0]) >= Q.of(1) / 2)
            ctx.tag("flipped" if placed == int(obj.block_edges[b, 1]) else "kept")
        if layout not in ("one_per_block",) and layout not in BLOCK_EDGES:
            # several singletons in a block: the placed-edge shares add up
            for b in (0, 1):
                ms = [m for m, (bb, _) in enumerate(muts) if bb == b]
                if len(ms) < 2:
                    continue
                i = int(obj.block_edges[b, 0])
                want = Q.of(0)
                for m in ms:
                    p = phases[m] if phases[m] is not None else 1   # P[under first parent]
                    want = want + p
                ctx.prove(f"realloc:block[{b}]:first_edge_gets_sum_of_fitted_probabilities",
                          Q.of(used[i, 0]) == want)


def cases(tier):
    cs = []
    for lay in LAYOUTS:
        for seg in (False, True):
            cs.append(Case(f"realloc:{lay}:seg{int(seg)}", h_realloc,
                           dict(layout=lay, segsites=seg)))
            cs.append(Case(f"realloc:{lay}:seg{int(seg)}:nan", h_realloc,
                           dict(layout=lay, segsites=seg, nan_first=True)))
            if tier == "thorough" and len(LAYOUTS[lay]) >= 2:   # the undefined phase elsewhere
                cs.append(Case(f"realloc:{lay}:seg{int(seg)}:nan1", h_realloc,
                               dict(layout=lay, segsites=seg, nan_first=1)))
    return cs


def run(tier, seed, t0):
    from symx import npx
    cs = cases(tier)
    outs = common.run_cases(cs)
    return common.finish(
        "C23", tier, seed, t0, outs,
        explanation="The real ExpectationPropagation.infer (phase flip and placement) followed by "
        "the real rescale up to and including phasing.reallocate_unphased is executed with "
        "symbolic fitted phases in [0,1] (optionally one undefined / NaN phase, which a "
        "numerically rejected projection leaves behind) and symbolic counts on phased edges.  z3 proves on every "
        "flip pattern: phased edges and spans unchanged, each block's two edges receive exactly "
        "its number of singletons in total, the array not selected by match_segregating_sites is "
        "untouched, and the edge a singleton is finally placed on receives the share >= 1/2.",
        functions=["tsdate.variational.ExpectationPropagation.infer (flip block)",
                   "tsdate.variational.ExpectationPropagation.rescale (prefix)",
                   "tsdate.phasing.reallocate_unphased"],
        bounds={"blocks": 2, "singletons": "1-3 in layouts " + ", ".join(LAYOUTS),
                "phases": "all values in [0,1] (every flip pattern)",
                "match_segregating_sites": "both"},
        stubs=["iterate / propagate_mutations replaced on the instance (phases arbitrary in [0,1])",
               "rescale cut after reallocate_unphased (mutational_timescale raises a sentinel)"],
        assumptions=["at most one singleton (the first; thorough: also the second) has an undefined (NaN) phase"],
        out_of_scope=["the rest of rescale (C25)"],
        validated=npx.validate(),
        expect_tags=["flipped", "kept"],
    )


def replay(payload):
    """Through tsdate.date(singletons_phased=False) on a real input: rebuild the expected edge
    counts from the fitted phase and the final placement, compare with what rescale used."""
    import tsdate
    import tskit
    from tsdate import variational, phasing
    from symx import skeletons as SK
    bad = []
    for ts, mu, its in ((SK.diploid_cherry(), 0.1, 3), (SK.diploid_two_tree(), 0.1, 3),
                        (SK.diploid_three_tree(), 0.1, 3), (_many_singletons(), 0.1, 3),
                        (_undefined_phase_input(), 1e-8, 25)):
        for seg in (False, True):
            ep = variational.ExpectationPropagation(ts, mutation_rate=mu, singletons_phased=False)
            captured = {}
            orig = variational.reallocate_unphased

            def spy(lik, phase, blocks, bedges):
                orig(lik, phase, blocks, bedges)
                captured["lik"] = lik.copy()
                captured["phase"] = phase.copy()
            variational.reallocate_unphased = spy
            try:
                try:
                    ep.infer(ep_iterations=its, max_shape=1000, rescale_intervals=2,
                             rescale_iterations=1, regularise=True, rescale_segsites=seg)
                except AssertionError as e:
                    if "rescaling intervals" not in repr(e):
                        # an internal assertion on a valid input is itself the failure
                        bad.append((seg, "infer/rescale raised", repr(e)[:80],
                                    "singletons with undefined phase:",
                                    int(np.sum(np.isnan(ep.mutation_phase)))))
                        continue
            finally:
                variational.reallocate_unphased = orig
            if "lik" not in captured:
                continue
            lik = captured["lik"]
            # expected: every singleton credits its final phase (>= 1/2) to the edge it is
            # placed on and the rest to the other edge of its block
            want = {}
            for m in range(ts.num_mutations):
                b = ep.mutation_blocks[m]
                if b < 0:
                    continue
                placed = int(ep.mutation_edges[m])
                if np.isnan(ep.mutation_phase[m]):
                    # undefined phase: counted once, on the edge it is placed on
                    want[placed] = want.get(placed, 0.0) + 1.0
                    continue
                i, j = (int(x) for x in ep.block_edges[b])
                other = j if placed == i else i
                want[placed] = want.get(placed, 0.0) + ep.mutation_phase[m]
                want[other] = want.get(other, 0.0) + 1 - ep.mutation_phase[m]
            for e, w in want.items():
                if abs(lik[e, 0] - w) > 1e-9:
                    bad.append((seg, "edge", e, "credited", float(lik[e, 0]), "expected", float(w)))
    return bool(bad), ("edges whose credited singleton mass is not (final phase on the placed "
                       "edge, rest on the other): " + str(bad[:5]))


def _undefined_phase_input(n_old=200, n_root=200, L=1e6):
    """Two diploid individuals (0,1) and (2,3), two trees.  On the one-base-pair first tree
    node 1 hangs directly off a root with hundreds of mutations while node 0's parent is very
    young: the unphased projection for the singletons of that block is rejected numerically
    and their phase stays NaN."""
    import tskit
    t = tskit.TableCollection(sequence_length=L)
    for _ in range(2):
        t.individuals.add_row()
    for n in range(4):
        t.nodes.add_row(flags=tskit.NODE_IS_SAMPLE, time=0, individual=n // 2)
    for tm in (1.0, 2.0, 4.0, 3.0):
        t.nodes.add_row(flags=0, time=tm)
    for l, r, p_, c in ((0, L, 4, 0), (0, L, 4, 2), (0, L, 5, 4), (0, L, 5, 3), (0, 1, 6, 5),
                        (0, 1, 6, 1), (1, L, 7, 5), (1, L, 7, 1)):
        t.edges.add_row(l, r, p_, c)
    rng = np.random.default_rng(1)
    pos_a = np.sort(rng.uniform(0, 1, n_old + n_root))
    nodes_a = np.array([1] * n_old + [5] * n_root)
    rng.shuffle(nodes_a)
    pos_b = np.sort(rng.uniform(1, L, 9))
    nodes_b = np.array([1] * 3 + [3] * 2 + [5] * 4)
    rng.shuffle(nodes_b)
    for pos, node in zip(np.append(pos_a, pos_b), np.append(nodes_a, nodes_b)):
        s_ = t.sites.add_row(position=pos, ancestral_state="0")
        t.mutations.add_row(site=s_, node=int(node), derived_state="1")
    t.sort()
    t.build_index()
    t.compute_mutation_parents()
    return t.tree_sequence()


def _many_singletons():
    import msprime
    ts = msprime.sim_ancestry(3, ploidy=2, sequence_length=50, recombination_rate=0.01,
                              random_seed=5)
    ts = msprime.sim_mutations(ts, rate=0.05, random_seed=7)
    return ts
