"""C07 - genome coordinates * c together with mutation rate / c leave the dates unchanged."""
import math

import numpy as np

from checks import common, ep_h
from checks import discrete_h as D
from checks.common import Case
from checks.coords import SymCoords, SymTS
from symx import skeletons as SK

VAR_SKELS = ["cat3", "two_tree", "two_parents", "disjoint_node", "three_pieces", "diploid_cherry",
             "diploid_two_tree", "diploid_three_tree", "mutation_above_root"]
EP_ARRAYS = ["edge_likelihoods", "sizebiased_likelihoods", "block_likelihoods", "mutation_edges",
             "block_edges", "mutation_blocks", "block_nodes", "edge_parents", "edge_children",
             "node_constraints", "mutation_nodes", "roots", "leaves", "unconstrained_roots",
             "edge_order", "block_order", "mutation_order"]


def _same(ctx, name, a, b):
    """two arrays hold equal terms (symbolic entries: solver equality)"""
    from symx.dom import Q, is_sym
    a, b = np.asarray(a), np.asarray(b)
    ctx.prove(f"{name}:same_shape", a.shape == b.shape)
    if a.shape != b.shape:
        return
    if a.dtype != object and b.dtype != object:
        ctx.prove(f"{name}:equal", bool(np.array_equal(a, b, equal_nan=a.dtype.kind == "f")))
        return
    for idx in np.ndindex(a.shape):
        x, y = a[idx], b[idx]
        if not is_sym(x) and not is_sym(y):
            fx, fy = float(x), float(y)
            ctx.prove(f"{name}{list(idx)}:equal", fx == fy or (fx != fx and fy != fy))
        else:
            ctx.prove(f"{name}{list(idx)}:equal", Q.of(x) == Q.of(y))


def h_variational(ctx, skel, phased):
    """The real ExpectationPropagation.__init__ on one input in two coordinate systems: every
    array the EP algorithm works from is identical (spans only ever enter as span * rate)."""
    from symx.dom import sym
    real = SK.all_named()[skel]()
    c = sym("c", "pos")
    mu = sym("mu", "pos")
    objs = []
    with ep_h.patched_ep(more=("phasing", "rescaling", "util")) as (var, approx, npx):
        for scale in (None, c):
            sc = SymCoords(ctx, real, scale=scale)
            ts = SymTS(real, sc)
            try:
                ep = var.ExpectationPropagation(ts, mutation_rate=mu if scale is None else mu / c,
                                                singletons_phased=phased)
            except Exception as e:
                ctx.fail("no-exception", detail={"exception": repr(e)[:300], "scaled": scale is not None})
                return
            objs.append(ep)
    a, b = objs
    for nm in EP_ARRAYS:
        if hasattr(a, nm) or hasattr(b, nm):
            _same(ctx, f"ep.{nm}", getattr(a, nm), getattr(b, nm))
    ctx.tag("variational-unphased" if not phased else "variational")
    from symx.dom import choice
    choice("pad_")


def h_discrete(ctx, skel, G, space, kind):
    from symx.dom import sym, Q
    real = SK.all_named()[skel]()
    c = sym("c", "pos")
    res = []
    for scale in (None, c):
        sc = SymCoords(ctx, real, scale=scale)
        ts = SymTS(real, sc)
        with D.setup(ctx, ts, G, space, build="method", mu_div=scale) as env:
            m = D.make_method(env, ts, kind)
            try:
                if kind == "inside_outside":
                    r = m.run(eps=env.eps, outside_standardize=True, ignore_oldest_root=False,
                              probability_space=space, num_threads=None, cache_inside=False)
                else:
                    r = m.run(eps=env.eps, probability_space=space, num_threads=None,
                              cache_inside=False)
            except Exception as e:
                ctx.fail("no-exception", detail={"exception": repr(e)[:300], "scaled": scale is not None})
                return
            res.append(r)
    r1, r2 = res
    samples = set(int(s) for s in real.samples())
    for u in range(real.num_nodes):
        if u in samples:
            continue
        ctx.prove(f"discrete:{kind}:mean[{u}]_unchanged",
                  Q.of(r2.posterior_mean[u]) == Q.of(r1.posterior_mean[u]))
        if kind == "inside_outside":
            ctx.prove(f"discrete:{kind}:var[{u}]_unchanged",
                      Q.of(r2.posterior_var[u]) == Q.of(r1.posterior_var[u]))
    ctx.tag("discrete-" + kind)
    from symx.dom import choice
    choice("pad_")


def h_prior(ctx, skel, distr):
    """SpansBySamples + the span-weighted mixture prior in two coordinate systems."""
    from symx import load
    from symx.dom import sym, Q
    prior = load.tsdate_module("prior")
    ntc = load.tsdate_module("node_time_class")
    real = SK.all_named()[skel]()
    c = sym("c", "pos")
    out = []
    with load.patched(prior, ntc) as npx:
        for scale in (None, c):
            sc = SymCoords(ctx, real, scale=scale)
            ts = SymTS(real, sc)
            try:
                sbs = prior.SpansBySamples(ts)
                cct = prior.ConditionalCoalescentTimes(None, distr)
                Ts = sorted({int(T) for u in sbs.nodes_to_date for T in sbs.get_spans(u)})
                for T in Ts:
                    tab = npx.full((T + 1, 4), math.nan)
                    for k in range(2, T + 1):
                        tab[k, 0], tab[k, 1] = sym(f"A{T}_{k}"), sym(f"B{T}_{k}")
                        tab[k, 2], tab[k, 3] = sym(f"m{T}_{k}", "pos"), sym(f"v{T}_{k}", "pos")
                    cct.prior_store[T] = tab
                calls = []

                def spy(mean, var, calls=calls):
                    calls.append((mean, var))
                    return mean, var
                cct.func_approx = spy
                pars = cct.get_mixture_prior_params(sbs)
            except Exception as e:
                ctx.fail("no-exception", detail={"exception": repr(e)[:300], "scaled": scale is not None})
                return
            out.append((sbs, pars, calls))
    (s1, p1, c1), (s2, p2, c2) = out
    ctx.prove("prior:same_nodes_to_date", list(map(int, s1.nodes_to_date)) == list(map(int, s2.nodes_to_date)))
    for u in s1.nodes_to_date:
        u = int(u)
        ctx.prove(f"prior:node[{u}]:span_times_c", Q.of(s2.node_spans[u]) == Q.of(s1.node_spans[u]) * c)
        ctx.prove(f"prior:node[{u}]:mixture_parameters_unchanged",
                  (Q.of(p2[u, 0]) == Q.of(p1[u, 0])) & (Q.of(p2[u, 1]) == Q.of(p1[u, 1]))
                  if not isinstance(Q.of(p2[u, 0]) == Q.of(p1[u, 0]), bool)
                  else bool(Q.of(p2[u, 0]) == Q.of(p1[u, 0])) and (Q.of(p2[u, 1]) == Q.of(p1[u, 1])))
    ctx.prove("prior:same_number_of_mixtures", len(c1) == len(c2))
    ctx.tag("prior")
    from symx.dom import choice
    choice("pad_")


def cases(tier):
    cs = []
    for sk in VAR_SKELS + (SK.random_names(6) if tier == "thorough" else []):
        cs.append(Case(f"variational:{sk}:phased", h_variational, dict(skel=sk, phased=True)))
        if sk.startswith("diploid"):
            cs.append(Case(f"variational:{sk}:unphased", h_variational, dict(skel=sk, phased=False)))
    for sk, G in (("cat3", 2), ("two_tree", 2), ("two_parents", 2)) + \
            ((("cat3", 3), ("two_tree", 3), ("disjoint_node", 2)) if tier == "thorough" else ()):
        for space in ("linear", "logarithmic"):
            for kind in ("inside_outside", "maximization"):
                cs.append(Case(f"discrete:{kind}:{sk}:G{G}:{space}", h_discrete,
                               dict(skel=sk, G=G, space=space, kind=kind), weight=40))
    for sk in ("two_tree", "two_parents", "disjoint_node", "three_pieces", "cat3"):
        for d in ("lognorm", "gamma"):
            cs.append(Case(f"prior:{sk}:{d}", h_prior, dict(skel=sk, distr=d)))
    return cs


def run(tier, seed, t0):
    from symx import npx
    cs = cases(tier)
    outs = common.run_cases(cs)
    return common.finish(
        "C07", tier, seed, t0, outs,
        explanation="Relational symbolic execution with symbolic breakpoints / site positions / "
        "sequence length (a SymTS proxy around real tskit skeletons) and ONE symbolic factor c > 0: "
        "the input at coordinates x with rate mu and at coordinates c x with rate mu / c.  z3 proves: "
        "every array the real ExpectationPropagation.__init__ derives (count_mutations plain and "
        "size-biased, block_singletons, * mutation_rate, block/edge/mutation orders) is identical, "
        "phased and unphased; the whole InsideOutsideMethod.run / MaximizationMethod.run gives "
        "identical posterior means / variances in both probability spaces (Poisson arguments are the "
        "same terms, span fractions are ratios); SpansBySamples node spans scale by c and the "
        "span-weighted mixture prior parameters are identical.",
        functions=["tsdate.variational.ExpectationPropagation.__init__/_check_valid_inputs",
                   "tsdate.rescaling.count_mutations/_count_mutations", "tsdate.phasing.block_singletons/"
                   "_block_singletons", "tsdate.util.contains_unary_nodes", "tsdate.core.InsideOutsideMethod.run/"
                   "MaximizationMethod.run", "tsdate.discrete.Likelihoods/LogLikelihoods/BeliefPropagation",
                   "tsdate.prior.SpansBySamples", "ConditionalCoalescentTimes.get_mixture_prior_params"],
        bounds={"skeletons": VAR_SKELS, "trees": "<= 3", "grid": "2 (3 thorough) timepoints",
                "c": "every positive real", "coordinates": "symbolic, skeleton order preserved"},
        stubs=["tskit TreeSequence -> proxy replacing only coordinates", "Poisson pmf uninterpreted",
               "per-(T,k) coalescent priors symbolic"],
        assumptions=["everything downstream of ExpectationPropagation.__init__ reads only the arrays "
                     "compared here and coordinate-free attributes of the input (the EP loop and rescale "
                     "take no tree sequence argument)"],
        out_of_scope=["floating-point rounding of c x (the property allows tolerance)"],
        validated=npx.validate(),
        expect_tags=["variational", "variational-unphased", "discrete-inside_outside",
                     "discrete-maximization", "prior"],
    )


def _scaled(ts, c):
    t = ts.dump_tables()
    t.sequence_length = ts.sequence_length * c
    t.edges.left = ts.edges_left * c
    t.edges.right = ts.edges_right * c
    t.sites.position = ts.sites_position * c
    return t.tree_sequence()


def replay(payload):
    """Public API on real inputs at the model's c and fixed non-integer factors, all methods,
    phased and unphased singletons."""
    import msprime
    import tsdate
    m = common.model_floats(payload["model"])
    cs = [float(m.get("c", 0.37)), 0.37, 1e-3, 2.0 ** -12, 1234.5]
    bad = []
    ts0 = msprime.sim_ancestry(4, sequence_length=2e4, recombination_rate=2e-6, population_size=100,
                               random_seed=5)
    ts0 = msprime.sim_mutations(ts0, rate=2e-5, random_seed=6)
    mu = 2e-5
    for c in cs:
        if not (1e-6 < c < 1e6):
            continue
        ts1 = _scaled(ts0, c)
        runs = [("variational_gamma", dict(rescaling_intervals=5)),
                ("variational_gamma", dict(rescaling_intervals=5, singletons_phased=False)),
                ("inside_outside", dict(population_size=100)),
                ("maximization", dict(population_size=100))]
        for method, kw in runs:
            try:
                a = tsdate.date(ts0, method=method, mutation_rate=mu, **kw)
                b = tsdate.date(ts1, method=method, mutation_rate=mu / c, **kw)
            except Exception as e:
                bad.append((method, kw, c, repr(e)[:200]))
                continue
            if not np.allclose(b.nodes_time, a.nodes_time, rtol=1e-6, atol=1e-9):
                bad.append((method, str(kw), c, "nodes_time",
                            float(np.max(np.abs(b.nodes_time - a.nodes_time)))))
            elif not np.allclose(b.mutations_time, a.mutations_time, rtol=1e-6, atol=1e-9, equal_nan=True):
                bad.append((method, str(kw), c, "mutations_time"))
    return bool(bad), str(bad[:4])
