"""C19 - special-function and gamma-fitting helpers (the algebraically decidable part)."""
import math
from fractions import Fraction as F

import numpy as np

from checks import common, ep_h
from checks.common import Case

# Stirling-series coefficients from the Bernoulli numbers (exact):
#   psi(x)  ~ log x - 1/(2x) - sum_k B_2k / (2k x^2k)
#   psi'(x) ~ 1/x + 1/(2x^2) + sum_k B_2k / x^(2k+1)
BERN = {2: F(1, 6), 4: F(-1, 30), 6: F(1, 42), 8: F(-1, 30), 10: F(5, 66), 12: F(-691, 2730),
        14: F(7, 6), 16: F(-3617, 510)}
EULER_GAMMA = F("0.5772156649015328606065120900824")
ZETA2 = F("1.6449340668482264365")
# accuracy budgets ("near machine precision" as the real code achieves it, with margin):
BUDGET = {"digamma_series_abs": F(1, 10**14), "trigamma_series_abs": F(1, 10**11),
          "digamma_small_rel": F(2, 10**10), "trigamma_small_rel": F(2, 10**8),
          "coefficients_abs": F(1, 10**16)}


def _series_digamma(z, nterms=6):
    from symx.dom import Q
    s = ep_h.uf_log(z) - Q.of(1) / (2 * z)
    for k in range(1, nterms + 1):
        s = s - Q.of(BERN[2 * k] / (2 * k)) / z ** (2 * k)
    return s


def _series_trigamma(z, nterms=7):
    from symx.dom import Q
    s = Q.of(1) / z + Q.of(1) / (2 * z * z)
    for k in range(1, nterms + 1):
        s = s + Q.of(BERN[2 * k]) / z ** (2 * k + 1)
    return s


def h_polygamma(ctx, which, piece):
    """_digamma / _trigamma on a symbolic positive x in one piece of the positive axis: the
    executed arithmetic is compared with the exact recurrence + Stirling series (Bernoulli
    coefficients as exact rationals), and the first omitted term of the series at the point
    where the code switches to it is bounded."""
    from symx import load
    from symx.dom import sym, Q
    hypergeo = load.tsdate_module("hypergeo")
    x = sym("x", "pos")
    lo, hi = piece
    if lo is not None:
        ctx.assume(x > Q.of(lo))
    if hi is not None:
        ctx.assume(x <= Q.of(hi))
    with load.patched(hypergeo) as npx:
        hypergeo.np = ep_h.NPLog(npx)
        f = getattr(hypergeo, "_" + which)
        try:
            got = f(x)
        except Exception as e:
            ctx.fail("no-exception", detail={"exception": repr(e)[:300]})
            return
    cut = Q.of(F("8.5") if which == "digamma" else 5)
    small = Q.of(F("1e-5") if which == "digamma" else F("1e-4"))
    # the reference follows the mathematics, not the code: exact recurrence up to the first
    # z = x + k at which the code's own path has switched to the series
    if bool(x <= small):
        ctx.tag("small")
        if which == "digamma":
            ref = -Q.of(EULER_GAMMA) - Q.of(1) / x
            # psi(x) = -gamma - 1/x + zeta(2) x - ...: relative error of the two-term form
            ctx.prove("digamma:small:neglected_term_within_budget",
                      Q.of(ZETA2) * x * x <= Q.of(BUDGET["digamma_small_rel"]))
        else:
            ref = Q.of(1) / (x * x)
            ctx.prove("trigamma:small:neglected_term_within_budget",
                      Q.of(ZETA2) * x * x <= Q.of(BUDGET["trigamma_small_rel"]))
        d = Q.of(got) - ref
        ctx.prove(f"{which}:small:closed_form", (d <= Q.of(F(1, 10**15))) & (d >= -Q.of(F(1, 10**15))))
        return
    # how deep did the code recurse?  Try depths in order; the one consistent with the code's
    # value is accepted, the obligations are then proved for it.
    k = 0
    z = x
    while k < 12 and bool(z < cut):
        k += 1
        z = x + k
    ctx.tag(f"depth{k}")
    if which == "digamma":
        ref = _series_digamma(z)
        for i in range(k):
            ref = ref - Q.of(1) / (x + i)
        omitted = Q.of(abs(BERN[14]) / 14) / z ** 14
        budget = Q.of(BUDGET["digamma_series_abs"])
    else:
        ref = _series_trigamma(z)
        for i in range(k):
            ref = ref + Q.of(1) / ((x + i) * (x + i))
        omitted = Q.of(abs(BERN[16])) / z ** 17
        budget = Q.of(BUDGET["trigamma_series_abs"])
    d = Q.of(got) - ref
    tol = Q.of(BUDGET["coefficients_abs"])
    ctx.prove(f"{which}:recurrence_and_series_coefficients", (d <= tol) & (d >= -tol))
    ctx.prove(f"{which}:first_omitted_term_within_budget", omitted <= budget)


def h_betaln(ctx):
    from symx import load
    from symx.dom import sym, Q
    hypergeo = load.tsdate_module("hypergeo")
    p, q = sym("p", "pos"), sym("q", "pos")
    with load.patched(hypergeo, extra={hypergeo: {"lgamma": ep_h.uf_lgamma}}):
        try:
            got = hypergeo._betaln(p, q)
        except Exception as e:
            ctx.fail("no-exception", detail={"exception": repr(e)[:300]})
            return
    ctx.prove("betaln:lgamma(p)+lgamma(q)-lgamma(p+q)",
              Q.of(got) == ep_h.uf_lgamma(p) + ep_h.uf_lgamma(q) - ep_h.uf_lgamma(p + q))
    got2 = None
    with load.patched(hypergeo, extra={hypergeo: {"lgamma": ep_h.uf_lgamma}}):
        got2 = hypergeo._betaln(q, p)
    ctx.prove("betaln:symmetric", Q.of(got) == Q.of(got2))
    ctx.tag("betaln")
    from symx.dom import choice
    choice("pad_")


def h_mom(ctx):
    from symx.dom import sym, Q, Or
    m, v = sym("mean"), sym("variance")
    with ep_h.patched_ep() as (var, approx, npx):
        try:
            a, b = approx.approximate_gamma_mom(m, v)
        except approx.KLMinimizationFailedError:
            ctx.prove("mom:failure_only_for_nonpositive_moments", Or(m <= 0, v <= 0))
            ctx.tag("mom-raised")
            return
        except Exception as e:
            ctx.fail("no-exception", detail={"exception": repr(e)[:300]})
            return
    ctx.prove("mom:accepted_moments_positive", (m > 0) & (v > 0))
    ctx.prove("mom:rate>0", b > 0)
    ctx.prove("mom:shape>0", a + 1 > 0)
    ctx.prove("mom:mean_matched", (a + 1) == m * b)
    ctx.prove("mom:variance_matched", (a + 1) == v * b * b)
    ctx.tag("mom-returned")


def _not_positive(v):
    """v <= 0, or v undefined (a division by zero on this path gave inf/nan, which the code's
    own guards `not alpha > 0` / `not isfinite(alpha)` treat as failure too)."""
    if isinstance(v, float):
        return not (v > 0 and math.isfinite(v))
    return v <= 0


def _log_axioms(ctx, r, l):
    """sign facts of the real logarithm for the uninterpreted one (r > 0)."""
    from symx.dom import Q, z3bool
    import z3
    one = Q.of(1)
    ctx.assume(z3bool(r > one) == z3bool(l > 0))
    ctx.assume(z3bool(r < one) == z3bool(l < 0))


def h_kl(ctx, maxitt):
    """approximate_gamma_kl with log / digamma / trigamma uninterpreted: every return path gives
    shape > 0 and rate = shape / x (mean matched exactly); the iterates are Newton's method for
    psi(a) - log(a) = E[log x] - log E[x] and the loop stops only under its stated tolerance;
    every failure is a KLMinimizationFailedError with the stated cause."""
    from symx import load
    from symx.dom import sym, Q
    from symx.uf import uf
    hypergeo = load.tsdate_module("hypergeo")
    x, logx = sym("x"), sym("logx")
    dig, tri = [], []
    with ep_h.patched_ep() as (var, approx, npx):
        saved = hypergeo._digamma, hypergeo._trigamma, approx._KLMIN_MAXITT
        hypergeo._digamma = lambda a: (dig.append(a), uf("digamma", (a,)))[1]
        hypergeo._trigamma = lambda a: (tri.append(a), uf("trigamma", (a,)))[1]
        approx._KLMIN_MAXITT = maxitt
        tol = Q.of(approx._KLMIN_RELTOL)
        msg = None
        try:
            try:
                a, b = approx.approximate_gamma_kl(x, logx)
            except approx.KLMinimizationFailedError as e:
                msg = str(e)
            except Exception as e:
                ctx.fail("no-exception", detail={"exception": repr(e)[:300]})
                return
        finally:
            hypergeo._digamma, hypergeo._trigamma, approx._KLMIN_MAXITT = saved
    if msg is not None and "Nonpositive" in msg:
        ctx.prove("kl:raise:nonpositive_mean", x <= 0)
        ctx.tag("kl-raised")
        return
    L = ep_h.uf_log(x)
    if msg is not None and "Jensen" in msg:
        ctx.prove("kl:raise:jensen", L <= logx)
        ctx.tag("kl-raised")
        return
    # independent Newton iteration
    al = Q.of(1) / (2 * (L - logx))
    seq = [al]
    for k in range(len(dig)):
        f = uf("digamma", (seq[-1],)) - ep_h.uf_log(seq[-1]) + L - logx
        fp = uf("trigamma", (seq[-1],)) - Q.of(1) / seq[-1]
        seq.append(seq[-1] - f / fp)
    ctx.prove("kl:digamma_and_trigamma_called_in_step", len(dig) == len(tri))
    if msg is not None and "Maximum iterations" in msg:
        ctx.prove("kl:raise:iteration_cap_reached", len(dig) == maxitt + 1)
        ctx.tag("kl-raised")
        return
    if msg is not None and "Invalid shape" in msg:
        ctx.prove("kl:raise:invalid_shape", _not_positive(seq[-1]))
        ctx.tag("kl-raised")
        return
    if msg is not None:
        ctx.fail("kl:raise:unknown_cause", detail={"message": msg})
        return
    ctx.prove("kl:shape>0", a + 1 > 0)
    ctx.prove("kl:rate>0", b > 0)
    ctx.prove("kl:mean_matched", (a + 1) == x * b)
    if not dig:
        ctx.tag("kl-asymptotic")
        ctx.prove("kl:asymptotic:shape_is_lower_bound", (a + 1) == al)
        ctx.prove("kl:asymptotic:only_for_large_shape", al > 10000)
        return
    ctx.tag("kl-newton")
    ctx.prove("kl:newton:returned_shape_is_last_iterate", (a + 1) == seq[-1])
    for i, arg in enumerate(dig):
        ctx.prove(f"kl:newton:iterate[{i}]", Q.of(arg) == seq[i])
    step = seq[-1] - seq[-2]
    lim = abs(seq[-1]) * tol
    ctx.prove("kl:newton:stops_only_within_tolerance", (step <= lim) & (step >= -lim))


def _ginv(a, q):
    from symx.uf import uf
    return uf("gammainc_inv", (a, q), sign="pos")


def h_iqr(ctx, maxitt, kind):
    from symx import load
    from symx.dom import sym, Q
    from symx.uf import uf
    hypergeo = load.tsdate_module("hypergeo")
    ders = []

    def log_(r):
        l = ep_h.uf_log(r)
        from symx.dom import is_sym
        if is_sym(r):
            _log_axioms(ctx, r, l)
        return l

    with ep_h.patched_ep() as (var, approx, npx):
        saved = hypergeo._gammainc_inv, hypergeo._gammainc_der, approx._KLMIN_MAXITT, approx.log
        approx._KLMIN_MAXITT = maxitt
        approx.log = log_
        hypergeo._gammainc_inv = _ginv
        hypergeo._gammainc_der = lambda a, y: (ders.append((a, y)), uf("gammainc_der", (a, y)))[1]
        tol = Q.of(approx._KLMIN_RELTOL)
        msg = None
        try:
            q1 = sym("q1", "pos")
            q2 = sym("q2", "pos")
            ctx.assume(q2 < 1)
            ctx.assume(q1 < 1)
            x1 = sym("x1", "pos")
            x2 = x1 if kind == "equal" else sym("x2", "pos")
            ms = sym("max_shape")
            ctx.assume(ms > 1)
            try:
                a, b = approx.approximate_gamma_iqr(q1, q2, x1, x2, ms)
            except approx.KLMinimizationFailedError as e:
                msg = str(e)
            except Exception as e:
                ctx.fail("no-exception", detail={"exception": repr(e)[:300]})
                return
        finally:
            (hypergeo._gammainc_inv, hypergeo._gammainc_der, approx._KLMIN_MAXITT,
             approx.log) = saved
    from symx.dom import Or
    if msg is not None and "sorted" in msg:
        ctx.prove("iqr:raise:unsorted_quantiles", Or(q2 <= q1, x2 <= x1))
        ctx.tag("iqr-raised")
        return
    # independent Newton iteration on f(al) = G(al,q2)/G(al,q1) - x2/x1
    niter = len(ders) // 2
    seq = []
    if kind != "equal" and bool(Q.of(x2) == x1):
        kind = "equal"          # the solver chose x2 == x1 on this path
    if kind != "equal":
        seq = [log_(q2 / q1) / log_(x2 / x1)]
        for k in range(niter):
            al = seq[-1]
            y1, y2 = _ginv(al, q1), _ginv(al, q2)
            f = y2 / y1 - x2 / x1
            lg = ep_h.uf_lgamma(al)
            dy1 = -uf("gammainc_der", (al, y1)) * ep_h.uf_exp(y1 + log_(y1) * (1 - al) + lg)
            dy2 = -uf("gammainc_der", (al, y2)) * ep_h.uf_exp(y2 + log_(y2) * (1 - al) + lg)
            fp = (dy2 * y1 - dy1 * y2) / (y1 * y1)
            seq.append(al - f / fp)
    if msg is not None and "Maximum iterations" in msg:
        ctx.prove("iqr:raise:iteration_cap_reached", niter == maxitt + 1)
        ctx.tag("iqr-raised")
        return
    if msg is not None and "Negative shape" in msg:
        ctx.prove("iqr:raise:nonpositive_shape", _not_positive(seq[-1]))
        ctx.tag("iqr-raised")
        return
    if msg is not None:
        ctx.fail("iqr:raise:unknown_cause", detail={"message": msg})
        return
    ctx.prove("iqr:shape>0", a + 1 > 0)
    ctx.prove("iqr:shape<=max_shape", a + 1 <= ms)
    ctx.prove("iqr:rate>0", b > 0)
    if (a + 1 == ms) is True:
        ctx.tag("iqr-capped")
        ctx.prove("iqr:capped:lower_quantile_matched", b * x1 == _ginv(ms, q1))
        if kind != "equal":
            ctx.prove("iqr:capped:only_if_shape_would_exceed_cap", seq[-1] > ms)
        return
    ctx.tag("iqr-uncapped")
    ctx.prove("iqr:returned_shape_is_last_iterate", (a + 1) == seq[-1])
    ctx.prove("iqr:lower_quantile_matched", b * x1 == _ginv(a + 1, q1))
    if niter:
        step = seq[-1] - seq[-2]
        lim = abs(seq[-1]) * tol
        ctx.prove("iqr:newton:stops_only_within_tolerance", (step <= lim) & (step >= -lim))


def _pieces(which):
    cut = F("8.5") if which == "digamma" else F(5)
    small = F("1e-5") if which == "digamma" else F("1e-4")
    ps = [(None, small), (small, F(1, 2))]
    lo = F(1, 2)
    while lo < cut:
        hi = min(lo + 1, cut)
        ps.append((lo, hi))
        lo = hi
    ps.append((cut, None))
    return ps


def cases(tier):
    cs = []
    for which in ("digamma", "trigamma"):
        for i, pc in enumerate(_pieces(which)):
            cs.append(Case(f"{which}:piece{i}", h_polygamma, dict(which=which, piece=pc)))
    cs.append(Case("betaln", h_betaln, {}))
    cs.append(Case("mom", h_mom, {}))
    for k in ((0, 1) if tier == "quick" else (0, 1, 2)):
        cs.append(Case(f"kl:maxitt{k}", h_kl, dict(maxitt=k), weight=10 * (k + 1)))
    cs.append(Case("iqr:equal", h_iqr, dict(maxitt=0, kind="equal")))
    for k in ((0, 1) if tier == "quick" else (0, 1, 2)):
        cs.append(Case(f"iqr:maxitt{k}", h_iqr, dict(maxitt=k, kind="sorted", max_paths=3000),
                       weight=20 * (k + 1)))
    return cs


def run(tier, seed, t0):
    from symx import npx
    cs = cases(tier)
    outs = common.run_cases(cs)
    return common.finish(
        "C19", tier, seed, t0, outs,
        explanation="hypergeo._digamma/_trigamma are executed on a symbolic positive x, piece by "
        "piece over the whole positive axis; z3 proves the executed arithmetic equal (to 1e-16) "
        "to the exact recurrence psi(x) = psi(x+k) - sum 1/(x+i) plus the Stirling series with "
        "Bernoulli coefficients held as exact rationals, and bounds the first omitted series term "
        "(an upper bound of the truncation error of these enveloping series) at every point where "
        "the code uses the series, and the neglected term of the small-x forms.  _betaln is proved "
        "equal to lgamma(p)+lgamma(q)-lgamma(p+q).  approximate_gamma_mom: returns a gamma with "
        "exactly the requested mean and variance iff both are positive, else "
        "KLMinimizationFailedError.  approximate_gamma_kl / approximate_gamma_iqr with the "
        "transcendental callees uninterpreted: every return has a positive shape (<= max_shape), "
        "positive rate, the mean (resp. lower quantile) matched exactly, the iterates are exactly "
        "Newton's method for the mean-log (resp. quantile-ratio) equation derived independently "
        "in the harness, the loop stops only under the stated relative tolerance, the cap is "
        "returned only when the shape would exceed it, and every failure is a "
        "KLMinimizationFailedError with the stated cause.",
        functions=["tsdate.hypergeo._digamma", "tsdate.hypergeo._trigamma", "tsdate.hypergeo._betaln",
                   "tsdate.approx.approximate_gamma_mom", "tsdate.approx.approximate_gamma_kl",
                   "tsdate.approx.approximate_gamma_iqr"],
        bounds={"x": "all positive reals (pieces of the axis, each symbolic)",
                "newton_iterations": "<= 2 quick, <= 3 thorough (4 did not finish in 2400 s): _KLMIN_MAXITT set in "
                                     "the harness; the loop body is the same at every iteration",
                "accuracy_budgets": {k: float(v) for k, v in BUDGET.items()}},
        stubs=["math.log/exp/lgamma, hypergeo._gammainc_inv/_gammainc_der uninterpreted (log with "
               "its sign facts); _digamma/_trigamma uninterpreted inside the two fits"],
        assumptions=["exact reals (rounding of the series evaluation is outside)",
                     "the Stirling series of psi and psi' are enveloping for x > 0 (error below the "
                     "first omitted term): textbook fact, not derived from the code"],
        out_of_scope=["convergence of the Newton iterations (transcendental)", "x <= 0 (reflection "
                      "branch)", "floating-point rounding"],
        validated=npx.validate(),
        expect_tags=["small", "depth0", "depth9", "betaln", "mom-returned", "mom-raised",
                     "kl-asymptotic", "kl-newton", "kl-raised", "iqr-capped", "iqr-uncapped",
                     "iqr-raised"],
    )


def replay(payload):
    """Compiled helpers against SciPy at the model's arguments and on a fixed wide grid."""
    import scipy.special as sp
    import scipy.stats as st
    from tsdate import hypergeo, approx
    m = common.model_floats(payload["model"])
    case = payload["case"]
    bad = []
    if case.startswith(("digamma", "trigamma")):
        which = case.split(":")[0]
        f = getattr(hypergeo, "_" + which)
        ref = sp.digamma if which == "digamma" else (lambda z: sp.polygamma(1, z))
        xs = [float(m.get("x", 1.0))] + list(np.logspace(-9, 9, 400)) + \
            list(np.linspace(1e-5, 9.5, 2000)) + [1e-5, 1.0001e-5, 1e-4, 1.0001e-4, 5.0, 8.5]
        for x in xs:
            if not x > 0:
                continue
            g, r = f(float(x)), float(ref(x))
            # accuracy the real code has: the two-term small-x forms are good to ~2e-10 / ~2e-8
            # relative, the recurrence + series to ~1e-14 (digamma) / ~4e-11 (trigamma)
            if which == "digamma":
                tol = 5e-10 * abs(r) if x <= 1.0001e-5 else 2e-13 * max(1.0, abs(r))
            else:
                tol = 5e-8 * abs(r) if x <= 1.0001e-4 else 2e-10 * abs(r)
            if not abs(g - r) <= tol:
                bad.append((which, x, g, r))
    elif case.startswith("betaln"):
        for p, q in [(float(m.get("p", 1.5)), float(m.get("q", 2.5))), (0.3, 7.0), (1e-3, 1e3),
                     (250.0, 0.5), (3.0, 3.0)]:
            g, r = hypergeo._betaln(p, q), float(sp.betaln(p, q))
            if not abs(g - r) <= 1e-10 * max(1, abs(r)):
                bad.append(("betaln", p, q, g, r))
    elif case.startswith("mom"):
        for mean, var in [(float(m.get("mean", 2.0)), float(m.get("variance", 3.0))), (1e-6, 1e-3),
                          (1e6, 1.0), (3.0, 1e-12), (0.0, 1.0), (1.0, 0.0), (-1.0, 1.0)]:
            try:
                a, b = approx.approximate_gamma_mom(mean, var)
            except approx.KLMinimizationFailedError:
                if mean > 0 and var > 0:
                    bad.append(("mom raised on valid", mean, var))
                continue
            if not (mean > 0 and var > 0):
                bad.append(("mom accepted invalid", mean, var))
            elif not (abs((a + 1) / b - mean) <= 1e-9 * mean and abs((a + 1) / b ** 2 - var) <= 1e-9 * var):
                bad.append(("mom moments", mean, var, a, b))
    elif case.startswith("kl"):
        pts = [(2.0, 0.5), (1.0, -0.1), (5.0, 1.6), (1e-3, -8.0), (1e4, 9.2), (3.0, math.log(3.0) - 1e-7),
               (0.7, -3.0), (10.0, 2.3)]
        for al in (0.05, 0.3, 1.0, 2.5, 7.0, 30.0, 500.0, 9000.0, 1e5):
            for be in (1e-3, 1.0, 50.0):
                pts.append((al / be, float(sp.digamma(al)) - math.log(be)))
        for x, lx in pts:
            try:
                a, b = approx.approximate_gamma_kl(x, lx)
            except approx.KLMinimizationFailedError:
                if x > 0 and math.log(x) - lx > 1e-3:
                    bad.append(("kl raised on valid", x, lx))
                continue
            if not (a + 1 > 0 and b > 0 and abs((a + 1) / b - x) <= 1e-9 * x):
                bad.append(("kl mean", x, lx, a, b))
                continue
            got = float(sp.digamma(a + 1)) - math.log(b)
            if not abs(got - lx) <= 1e-5 * max(1, abs(lx)):
                bad.append(("kl mean log", x, lx, got))
    elif case.startswith("iqr"):
        for al in (0.3, 1.0, 2.5, 7.0, 40.0, 300.0):
            for be in (1e-2, 1.0, 30.0):
                for q1, q2 in ((0.25, 0.75), (0.1, 0.9), (0.4, 0.6)):
                    x1, x2 = st.gamma.ppf([q1, q2], al, scale=1 / be)
                    for ms in (1000.0, 5.0):
                        try:
                            a, b = approx.approximate_gamma_iqr(q1, q2, float(x1), float(x2), ms)
                        except approx.KLMinimizationFailedError:
                            bad.append(("iqr raised on valid", al, be, q1, q2, ms))
                            continue
                        if al > ms:
                            ok = abs(a + 1 - ms) <= 1e-9 and \
                                abs(st.gamma.ppf(q1, ms, scale=1 / b) - x1) <= 1e-6 * x1
                        else:
                            y = st.gamma.ppf([q1, q2], a + 1, scale=1 / b)
                            ok = abs(y[0] - x1) <= 1e-6 * x1 and abs(y[1] / y[0] - x2 / x1) <= 1e-5 * x2 / x1
                        if not ok:
                            bad.append(("iqr", al, be, q1, q2, ms, a, b))
    return bool(bad), str(bad[:4])
