"""C33 - provenance records each call exactly once."""
import json

import numpy as np

from checks import common
from checks.common import Case
from symx import skeletons as SK

INIT_KEYS = {"mutation_rate", "recombination_rate", "time_units", "progress", "population_size"}
RUN_KEYS = {
    "variational_gamma": {"max_iterations", "max_shape", "rescaling_intervals",
                          "rescaling_iterations", "match_segregating_sites", "regularise_roots",
                          "singletons_phased"},
    "inside_outside": {"eps", "outside_standardize", "ignore_oldest_root", "probability_space",
                       "num_threads", "cache_inside"},
    "maximization": {"eps", "probability_space", "num_threads", "cache_inside"},
}
PRE_KEYS = {"minimum_gap", "erase_flanks", "split_disjoint", "filter_populations",
            "filter_individuals", "filter_sites", "delete_intervals"}


def _pick(options, name):
    from symx.dom import choice
    i = 0
    while i < len(options) - 1 and choice(f"{name}_{i}_"):
        i += 1
    return options[i]


def _call(tsdate, ts, step, record):
    kind, kw = step
    kw = dict(kw)
    if kind == "preprocess_ts":
        return tsdate.preprocess_ts(ts, record_provenance=record, **kw)
    return tsdate.date(ts, method=kind, record_provenance=record, **kw)


def h_sequence(ctx, first, second):
    """Two consecutive calls in one process (solver-chosen parameters and record flags): each
    recording call appends exactly one record naming the command and exactly the parameters of
    THAT call; earlier records are kept; record_provenance=False leaves the table unchanged."""
    from symx import load
    tsdate = load.tsdate_module("")
    ts = SK.two_tree()
    steps = []
    for i, kind in enumerate((first, second)):
        if kind == "preprocess_ts":
            kw = {"minimum_gap": _pick([3.0, 1.5], f"gap{i}"),
                  "erase_flanks": _pick([True, False], f"flanks{i}"),
                  "split_disjoint": _pick([True, False], f"split{i}")}
        elif kind == "variational_gamma":
            kw = {"mutation_rate": _pick([0.1, 0.25], f"mu{i}"),
                  "max_iterations": _pick([2, 3], f"it{i}"),
                  "rescaling_intervals": _pick([0, 1], f"ri{i}"),
                  "time_units": _pick([None, "years"], f"tu{i}")}
        else:
            kw = {"mutation_rate": _pick([0.1, 0.25], f"mu{i}"),
                  "population_size": _pick([10, {"population_size": [5, 20], "time_breaks": [3]}],
                                           f"ne{i}"),
                  "eps": _pick([1e-6, 1e-3], f"eps{i}"),
                  "probability_space": _pick(["logarithmic", "linear"], f"ps{i}")}
        steps.append((kind, kw, _pick([True, False], f"record{i}")))
    cur = ts
    for i, (kind, kw, record) in enumerate(steps):
        before = [p.record for p in cur.provenances()]
        try:
            out = _call(tsdate, cur, (kind, kw), record)
        except Exception as e:
            ctx.fail("no-exception", detail={"exception": repr(e)[:300], "step": i})
            return
        after = [p.record for p in out.provenances()]
        if not record:
            ctx.prove(f"prov:step{i}:off_leaves_table_unchanged", after == before)
            ctx.tag("off")
            cur = out
            continue
        ctx.prove(f"prov:step{i}:exactly_one_record_added", len(after) == len(before) + 1)
        ctx.prove(f"prov:step{i}:earlier_records_kept", after[:len(before)] == before)
        if len(after) != len(before) + 1:
            return
        rec = json.loads(after[-1])
        import tskit
        ok = True
        try:
            tskit.validate_provenance(rec)
        except Exception:
            ok = False
        ctx.prove(f"prov:step{i}:valid_against_tskit_schema", ok)
        par = rec["parameters"]
        ctx.prove(f"prov:step{i}:command_names_the_call", par.get("command") == kind)
        ctx.prove(f"prov:step{i}:software_is_tsdate", rec["software"]["name"] == "tsdate")
        want_keys = (PRE_KEYS if kind == "preprocess_ts" else INIT_KEYS | RUN_KEYS[kind]) | {"command"}
        ctx.prove(f"prov:step{i}:parameter_names_are_this_calls", set(par) == want_keys,
                  detail={"extra": sorted(set(par) - want_keys), "missing": sorted(want_keys - set(par))})
        for k, v in kw.items():
            if k == "population_size" and isinstance(v, dict):
                ctx.prove(f"prov:step{i}:param[{k}]", par.get(k) == {"population_size": [5.0, 20.0],
                                                                    "time_breaks": [3.0]})
            elif k == "time_units":
                ctx.prove(f"prov:step{i}:param[{k}]", par.get(k) == v)
            else:
                ctx.prove(f"prov:step{i}:param[{k}]", par.get(k) == v)
        ctx.tag("recorded")
        cur = out


def cases(tier):
    kinds = ["variational_gamma", "inside_outside", "maximization", "preprocess_ts"]
    cs = []
    pairs = [(a, b) for a in kinds for b in kinds]
    if tier == "quick":
        pairs = [("variational_gamma", "preprocess_ts"), ("preprocess_ts", "variational_gamma"),
                 ("inside_outside", "variational_gamma"), ("maximization", "inside_outside"),
                 ("variational_gamma", "variational_gamma"), ("preprocess_ts", "maximization")]
    for a, b in pairs:
        cs.append(Case(f"seq:{a}+{b}", h_sequence, dict(first=a, second=b), shard_depth=3,
                       weight=10))
    return cs


def run(tier, seed, t0):
    from symx import npx
    cs = cases(tier)
    outs = common.run_cases(cs)
    return common.finish(
        "C33", tier, seed, t0, outs,
        explanation="Sequences of two real calls (date with each method, preprocess_ts) are run in "
        "one process on a small two-tree input, the second on the output of the first; parameter "
        "values and the record_provenance flags are chosen by the solver (every combination of "
        "the listed alternatives is explored).  Obligations per call: exactly one record added "
        "iff recording is on, earlier records byte-identical, the record validates against "
        "tskit's provenance schema, names the command, and its parameter names/values are exactly "
        "those of THIS call (no value leaking from an earlier call).",
        functions=["tsdate.provenance.record_provenance/get_provenance_dict",
                   "tsdate.core.EstimationMethod.__init__/get_modified_ts", "*.run (provenance "
                   "update)", "tsdate.util.preprocess_ts/split_disjoint_nodes"],
        bounds={"calls_per_history": 2, "methods": "all three + preprocess_ts (6 ordered pairs "
                "quick, all 16 thorough)", "parameter_alternatives": "2 per parameter, 3-4 "
                "parameters per call, record flag on/off"},
        stubs=["none: the real functions run (NUMBA_DISABLE_JIT) on a concrete input"],
        assumptions=["tskit's ProvenanceTable.add_row keeps earlier rows"],
        out_of_scope=["timing/resources fields", "histories longer than 2 calls"],
        validated=npx.validate(),
        expect_tags=["recorded", "off"],
    )


def replay(payload):
    """The same two-call history on the compiled code with the model's choices."""
    import tsdate
    kw = payload["case_kw"]
    ts = SK.two_tree()
    bad = []
    # replay representative histories for the pair (values differ between the calls), with the
    # preprocessing options both on and off
    for split in (True, False):
        hist = []
        for i, kind in enumerate((kw["first"], kw["second"])):
            if kind == "preprocess_ts":
                p = {"minimum_gap": 3.0 if i == 0 else 1.5, "erase_flanks": bool(i) == split,
                     "split_disjoint": split}
            elif kind == "variational_gamma":
                p = {"mutation_rate": 0.1 + 0.15 * i, "max_iterations": 2 + i, "rescaling_intervals": i}
            else:
                p = {"mutation_rate": 0.1 + 0.15 * i, "population_size": 10, "eps": 1e-6, "probability_space": "linear"}
            hist.append((kind, p))
        cur = ts
        for i, (kind, p) in enumerate(hist):
            n0 = cur.num_provenances
            out = _call(tsdate, cur, (kind, p), True)
            if out.num_provenances != n0 + 1:
                bad.append((i, kind, "split_disjoint=%s" % split, "records added", out.num_provenances - n0))
            else:
                par = json.loads(out.provenance(out.num_provenances - 1).record)["parameters"]
                want = (PRE_KEYS if kind == "preprocess_ts" else INIT_KEYS | RUN_KEYS[kind]) | {"command"}
                if set(par) != want:
                    bad.append((i, kind, "extra", sorted(set(par) - want), "missing", sorted(want - set(par))))
                if par.get("command") != kind:
                    bad.append((i, "command", par.get("command")))
                for k, v in p.items():
                    if par.get(k) != v:
                        bad.append((i, k, par.get(k), v))
            cur = out
        if "preprocess_ts" not in (kw["first"], kw["second"]):
            break
    return bool(bad), str(bad[:4])
