"""C31 - site-time estimates follow their documented definition."""
import numpy as np

from checks import common
from checks.common import Case
from symx import skeletons as SK

SKELS = ["two_mrcas_root_muts", "mutation_above_root", "two_tree", "cat3"]


class _JSON:
    """json stand-in: node metadata row i decodes to {'mn': <symbol mn_i>} (or is invalid)."""

    class decoder:
        class JSONDecodeError(ValueError):
            pass

    def __init__(self, table, bad=()):
        self.table, self.bad = table, set(bad)

    def loads(self, s):
        i = int(s)
        if i in self.bad:
            raise self.decoder.JSONDecodeError("bad")
        return {"mn": self.table[i]}


class _TS:
    def __init__(self, ts, times):
        self._ts, self.nodes_time = ts, times

    def __getattr__(self, k):
        return getattr(self._ts, k)


def _with_index_metadata(ts):
    t = ts.dump_tables()
    t.nodes.packset_metadata([str(i).encode() for i in range(ts.num_nodes)])
    return t.tree_sequence()


def h_sites(ctx, skel, selection, unconstrained):
    from symx import load
    from symx.dom import sym, Q, Or
    from symx.uf import sym_sqrt
    util = load.tsdate_module("util")
    real = _with_index_metadata(SK.all_named()[skel]())
    n = real.num_nodes
    samples = set(int(s) for s in real.samples())
    t = np.empty(n, dtype=object)
    mn = {}
    for i in range(n):
        t[i] = 0.0 if i in samples else sym(f"t{i}", "pos")
        mn[i] = sym(f"mn{i}", "pos")
    for p, c in set(zip(map(int, real.edges_parent), map(int, real.edges_child))):
        if c not in samples:
            ctx.assume(t[p] > t[c])
    min_time = sym("min_time", "pos")
    with load.patched(util, extra={util: {"json": _JSON(mn)}}):
        try:
            got = util.sites_time_from_ts(_TS(real, t), unconstrained=unconstrained,
                                          node_selection=selection, min_time=min_time)
        except Exception as e:
            ctx.fail("no-exception", detail={"exception": repr(e)[:300]})
            return
    age = {i: (mn[i] if (unconstrained and i not in samples) else t[i]) for i in range(n)}
    for site in real.sites():
        r = got[site.id]
        if not site.mutations:
            ctx.prove(f"site[{site.id}]:nan_without_mutations", isinstance(r, float) and r != r)
            continue
        tree = real.at(site.position)
        cands = []
        for m in site.mutations:
            p = tree.parent(m.node)
            if selection == "child" or p == -1:
                a = age[m.node]
            elif selection == "parent":
                a = age[p]
            elif selection == "arithmetic":
                a = (Q.of(age[m.node]) + age[p]) / 2
            else:
                a = sym_sqrt(Q.of(age[m.node]) * age[p]) if not (
                    isinstance(age[m.node], float) and age[m.node] == 0) else 0.0
            cands.append(a)
        r = Q.of(r)
        ctx.prove(f"site[{site.id}]:>=min_time", r >= min_time)
        for j, a in enumerate(cands):
            ctx.prove(f"site[{site.id}]:>=summary_of_mutation{j}", r >= Q.of(a))
        ctx.prove(f"site[{site.id}]:attained", Or(r == min_time, *[r == Q.of(a) for a in cands]))
    ctx.tag(selection + (":unconstrained" if unconstrained else ":constrained"))


def h_sampledata(ctx, nsites):
    """add_sampledata_times: element-wise max of the estimate and the historical bound."""
    from symx import load
    from symx.dom import sym, Q, Or
    util = load.tsdate_module("util")
    est = np.empty(nsites, dtype=object)
    bound = np.empty(nsites, dtype=object)
    for i in range(nsites):
        est[i] = sym(f"est{i}", "nonneg")
        bound[i] = sym(f"bound{i}", "nonneg")

    class SD:
        num_sites = nsites

        def __init__(self):
            self.sites_time = np.empty(nsites, dtype=object)
            self.finalised = False

        def min_site_times(self, individuals_only=False):
            assert individuals_only
            return bound

        def copy(self):
            c = SD()
            c.is_copy = True
            return c

        def finalise(self):
            self.finalised = True
    sd = SD()
    with load.patched(util):
        try:
            out = util.add_sampledata_times(sd, est)
        except Exception as e:
            ctx.fail("no-exception", detail={"exception": repr(e)[:300]})
            return
    ctx.prove("sampledata:returns_finalised_copy", getattr(out, "is_copy", False) and out.finalised)
    for i in range(nsites):
        r = Q.of(out.sites_time[i])
        ctx.prove(f"sampledata:site[{i}]>=estimate", r >= est[i])
        ctx.prove(f"sampledata:site[{i}]>=bound", r >= bound[i])
        ctx.prove(f"sampledata:site[{i}]_is_one_of_them", Or(r == est[i], r == bound[i]))
    ctx.tag("sampledata")


def cases(tier):
    cs = []
    for sk in SKELS:
        for sel in ("child", "parent", "arithmetic", "geometric"):
            for unc in (False, True):
                if tier == "quick" and sk in ("two_tree", "cat3") and sel in ("child",) and unc:
                    continue
                cs.append(Case(f"sites:{sk}:{sel}:unc{int(unc)}", h_sites,
                               dict(skel=sk, selection=sel, unconstrained=unc), weight=5))
    cs.append(Case("sampledata:n2", h_sampledata, dict(nsites=2)))
    cs.append(Case("sampledata:n3", h_sampledata, dict(nsites=3)))
    return cs


def run(tier, seed, t0):
    from symx import npx
    cs = cases(tier)
    outs = common.run_cases(cs)
    return common.finish(
        "C31", tier, seed, t0, outs,
        explanation="util.sites_time_from_ts (with nodes_time_unconstrained) and "
        "add_sampledata_times are executed on real tskit skeletons whose node times, mn metadata "
        "values and min_time are symbolic (sqrt as w >= 0, w^2 = product).  z3 proves per site: the "
        "result is >= min_time and >= every mutation's summary (child / parent, child above a "
        "root / arithmetic / geometric mean) and equals one of them; sites without mutations get "
        "NaN; unconstrained=True takes non-sample ages from the metadata and sample ages from the "
        "table; add_sampledata_times is the element-wise maximum on a finalised copy.",
        functions=["tsdate.util.sites_time_from_ts", "tsdate.util.nodes_time_unconstrained",
                   "tsdate.util.add_sampledata_times"],
        bounds={"skeletons": SKELS, "sites": "<= 6", "mutations_per_site": "<= 2"},
        stubs=["json.loads on node metadata -> {'mn': symbol}", "tsinfer.SampleData -> stub",
               "numpy via symx.npx; sqrt via an uninterpreted non-negative root"],
        assumptions=["valid input (parent older than child)"],
        out_of_scope=["tskit tree traversal"],
        validated=npx.validate(),
        expect_tags=["child:constrained", "parent:unconstrained", "geometric:constrained",
                     "arithmetic:unconstrained", "sampledata"],
    )


def replay(payload):
    import json
    import math
    import tsdate
    kw = payload["case_kw"]
    if payload["case"].startswith("sampledata"):
        return None, "stub-level obligation (no public replay)"
    m = common.model_floats(payload["model"])
    ts = SK.all_named()[kw["skel"]]()
    t = ts.dump_tables()
    samples = set(int(s) for s in ts.samples())
    times = ts.nodes_time.copy()
    # keep the skeleton's own (valid) node times; metadata mn from the model
    mn = [float(m.get(f"mn{i}", 1.0 + i)) for i in range(ts.num_nodes)]
    t.nodes.packset_metadata([json.dumps({"mn": mn[i], "vr": 1.0}).encode()
                              for i in range(ts.num_nodes)])
    ts2 = t.tree_sequence()
    min_time = max(float(m.get("min_time", 0.01)), 1e-9)
    got = tsdate.sites_time_from_ts(ts2, unconstrained=kw["unconstrained"],
                                    node_selection=kw["selection"], min_time=min_time)
    age = [(mn[i] if (kw["unconstrained"] and i not in samples) else times[i])
           for i in range(ts.num_nodes)]
    bad = []
    for site in ts2.sites():
        if not site.mutations:
            if not math.isnan(got[site.id]):
                bad.append((site.id, "not nan"))
            continue
        tree = ts2.at(site.position)
        vals = []
        for mu in site.mutations:
            p = tree.parent(mu.node)
            if kw["selection"] == "child" or p == -1:
                vals.append(age[mu.node])
            elif kw["selection"] == "parent":
                vals.append(age[p])
            elif kw["selection"] == "arithmetic":
                vals.append((age[mu.node] + age[p]) / 2)
            else:
                vals.append(math.sqrt(age[mu.node] * age[p]))
        want = max(max(vals), min_time)
        if abs(got[site.id] - want) > 1e-9 * max(1, want):
            bad.append((site.id, float(got[site.id]), want))
    return bool(bad), str(bad)
