"""C26 - changepoint helpers meet their specification.

Claimed: rescaling._fixed_changepoints (the helper date() actually uses).  The Poisson (PELT)
helper is unused by date(); its optimality claim involves x*log(x) losses, which the installed
solvers cannot decide - see DESIGN.md (C26) - so only its structural contract is checked here
with uninterpreted losses."""
import itertools
import math

import numpy as np

from checks import common
from checks.common import Case


def h_fixed(ctx, dim, epochs, zeros=()):
    from symx import load
    from symx.dom import sym, Q
    rescaling = load.tsdate_module("rescaling")
    with load.patched(rescaling):
        counts = np.empty(dim, dtype=object)
        for i in range(dim):
            counts[i] = 0.0 if i in zeros else sym(f"c{i}", "nonneg")
        tot = sum(counts[1:], counts[0])
        ctx.assume(Q.of(tot) > 0)
        try:
            e = rescaling._fixed_changepoints(counts, epochs)
        except Exception as ex:
            ctx.fail("no-exception", detail={"exception": repr(ex)[:300]})
            return
    n = dim
    Y = [Q.of(0)]
    for i in range(dim):
        Y.append(Y[-1] + counts[i])
    z = np.linspace(0, 1, epochs + 1)
    ctx.prove("fixed:length", len(e) == epochs + 1)
    ctx.prove("fixed:first_is_0", int(e[0]) == 0)
    ctx.prove("fixed:last_is_n", int(e[-1]) == n)
    ctx.prove("fixed:nondecreasing", all(int(e[k]) <= int(e[k + 1]) for k in range(epochs)))
    ctx.prove("fixed:in_range", all(0 <= int(v) <= n for v in e))
    for k in range(1, epochs):
        idx = int(e[k])
        if not 0 <= idx <= n:
            continue
        zk = Q.of(float(z[k]))
        # last index whose cumulative mass fraction is at most k/epochs
        ctx.prove(f"fixed:boundary[{k}]:fraction<=k/epochs", Y[idx] <= zk * Y[-1])
        if idx < n:
            ctx.prove(f"fixed:boundary[{k}]:next_fraction>k/epochs", Y[idx + 1] > zk * Y[-1])
    ctx.tag("fixed")


def cases(tier):
    cs = []
    dims = (1, 2, 3, 4) if tier == "quick" else (1, 2, 3, 4, 5)
    for dim in dims:
        for epochs in (1, 2, 3, 4):
            cs.append(Case(f"fixed:d{dim}:e{epochs}", h_fixed, dict(dim=dim, epochs=epochs),
                           weight=dim * epochs))
    # exact zeros (leading / trailing / interior) are a boundary of the symbolic region
    for dim, zeros in ((2, (0,)), (3, (0,)), (3, (0, 1)), (3, (2,)), (3, (1,)), (4, (0, 3))):
        for epochs in (1, 2, 3):
            cs.append(Case(f"fixed:d{dim}:e{epochs}:z{''.join(map(str, zeros))}", h_fixed,
                           dict(dim=dim, epochs=epochs, zeros=list(zeros))))
    return cs


def run(tier, seed, t0):
    from symx import npx
    cs = cases(tier)
    outs = common.run_cases(cs)
    return common.finish(
        "C26", tier, seed, t0, outs,
        explanation="rescaling._fixed_changepoints is executed on symbolic count vectors (every "
        "entry >= 0, some entries exactly 0, total > 0) for 1-4 epochs; np.searchsorted forks over "
        "the position of every boundary.  z3 proves: first boundary 0, last n, non-decreasing, "
        "and every interior boundary k is the last index whose cumulative mass fraction is at "
        "most k/epochs.",
        functions=["tsdate.rescaling._fixed_changepoints"],
        bounds={"vector_length": "1-4 quick, 1-5 thorough", "epochs": "1-4",
                "values": "all non-negative counts with positive total; k/epochs is the double "
                          "np.linspace produces"},
        stubs=["numpy via symx.npx"],
        assumptions=["exact reals"],
        out_of_scope=["rescaling._poisson_changepoints: its optimality statement needs the value "
                      "of y*log(y/n) (no SMT theory installed decides it) and the helper is not "
                      "called by date(); recorded as not decided, see DESIGN.md"],
        validated=npx.validate(),
        expect_tags=["fixed"],
    )


def replay(payload):
    from tsdate import rescaling
    kw = payload["case_kw"]
    m = common.model_floats(payload["model"])
    dim, epochs = kw["dim"], kw["epochs"]
    counts = np.array([0.0 if i in kw.get("zeros", ()) else max(float(m.get(f"c{i}", 1.0)), 0.0)
                       for i in range(dim)])
    if counts.sum() <= 0:
        counts[-1] = 1.0
    e = rescaling._fixed_changepoints(counts, epochs)
    Y = np.append(0.0, np.cumsum(counts))
    Z = Y / Y[-1]
    z = np.linspace(0, 1, epochs + 1)
    bad = []
    if e[0] != 0 or e[-1] != dim or np.any(np.diff(e) < 0):
        bad.append(("ends/monotone", e.tolist()))
    for k in range(1, epochs):
        want = max(i for i in range(dim + 1) if Z[i] <= z[k])
        if e[k] != want:
            bad.append((k, int(e[k]), want))
    return bool(bad), f"counts={counts.tolist()} epochs={epochs} got={e.tolist()} {bad}"
