"""C25 - time rescaling is an order-preserving, continuous, piecewise-linear recalibration that
fixes 0 and the samples; mutational areas equal a direct overlap computation."""
import itertools
import math
from fractions import Fraction

import numpy as np

from checks import common, ep_h
from checks.common import Case

GRAPHS = {
    # name: (n, edges (parent, child), fixed)
    "cat3": (5, [(3, 0), (3, 1), (4, 2), (4, 3)], [1, 1, 1, 0, 0]),
    "bal4": (7, [(4, 0), (4, 1), (5, 2), (5, 3), (6, 4), (6, 5)], [1, 1, 1, 1, 0, 0, 0]),
    "two_parents": (6, [(3, 0), (3, 1), (4, 2), (4, 3), (5, 2), (5, 3)], [1, 1, 1, 0, 0, 0]),
}


def _graph(name):
    n, edges, fixed = GRAPHS[name]
    ep = np.array([p for p, c in edges], dtype=np.int32)
    ec = np.array([c for p, c in edges], dtype=np.int32)
    return n, edges, [bool(f) for f in fixed], ep, ec


def _times(ctx, n, fixed, valid_edges=None):
    from symx.dom import sym
    t = np.empty(n, dtype=object)
    for i in range(n):
        t[i] = 0.0 if fixed[i] else sym(f"t{i}", "pos")
    return t


def _liks(m):
    from symx.dom import sym
    lik = np.empty((m, 2), dtype=object)
    for e in range(m):
        lik[e, 0] = sym(f"y{e}", "nonneg")
        lik[e, 1] = sym(f"mu{e}", "pos")
    return lik


def h_area(ctx, graph):
    """mutational_area against a direct overlap computation, every ordering of node times."""
    from symx import load
    from symx.dom import Q
    rescaling = load.tsdate_module("rescaling")
    n, edges, fixed, ep, ec = _graph(graph)
    with load.patched(rescaling):
        t = _times(ctx, n, fixed)
        lik = _liks(len(edges))
        try:
            counts, offset, duration, index = rescaling.mutational_area(t, lik, ep, ec)
        except Exception as e:
            ctx.fail("no-exception", detail={"exception": repr(e)[:300]})
            return
    # breaks = 0 followed by the distinct positive node times in increasing order: recover
    # them from the kernel's own index vector and check that vector first
    K = len(duration)
    breaks = [Q.of(0)]
    for k in range(K):
        breaks.append(breaks[-1] + duration[k])
    for i in range(n):
        k = int(index[i])
        ctx.prove(f"area:index[{i}]_is_epoch_of_its_time", 0 <= k <= K and
                  (Q.of(t[i]) == breaks[k]) is not False and bool(Q.of(t[i]) == breaks[k]))
    for k in range(K):
        ctx.prove(f"area:duration[{k}]>0", duration[k] > 0)
    for k in range(K):
        c = Q.of(0)
        o = Q.of(0)
        for e, (p, ch) in enumerate(edges):
            if bool(t[p] > t[ch]) and bool(Q.of(t[ch]) <= breaks[k]) and \
                    bool(breaks[k + 1] <= Q.of(t[p])):
                c = c + lik[e, 0] / (t[p] - t[ch])
                o = o + lik[e, 1]
        ctx.prove(f"area:counts[{k}]", Q.of(counts[k]) == c)
        ctx.prove(f"area:offset[{k}]", Q.of(offset[k]) == o)
    ctx.tag("area")


def _pw(x, ob, rb):
    """reference piecewise-linear map through (ob[i], rb[i]), flat beyond the last break."""
    from symx.dom import Q
    x = Q.of(x)
    for i in range(len(ob) - 1):
        if bool(x < ob[i + 1]):
            return rb[i] + (rb[i + 1] - rb[i]) / (ob[i + 1] - ob[i]) * (x - ob[i])
    return rb[-1]


def _breaks(ctx, nb, prefix):
    from symx.dom import sym, Q
    out = np.empty(nb, dtype=object)
    out[0] = 0.0
    acc = Q.of(0)
    for i in range(1, nb):
        acc = acc + sym(f"{prefix}{i}", "pos")
        out[i] = acc
    return out


def h_point(ctx, nb, npts):
    """piecewise_scale_point_estimate: the reference map, f(0)=0, monotone, fixed untouched."""
    from symx import load
    from symx.dom import sym, Q, Implies
    rescaling = load.tsdate_module("rescaling")
    with load.patched(rescaling):
        ob, rb = _breaks(ctx, nb, "ob"), _breaks(ctx, nb, "rb")
        x = np.empty(npts + 2, dtype=object)
        for i in range(npts):
            x[i] = sym(f"x{i}", "nonneg")
        x[npts] = 0.0
        x[npts + 1] = sym("xfix", "nonneg")
        fixed = np.array([False] * (npts + 1) + [True])
        try:
            y = rescaling.piecewise_scale_point_estimate(x, fixed, ob, rb)
        except Exception as e:
            ctx.fail("no-exception", detail={"exception": repr(e)[:300]})
            return
    for i in range(npts):
        ctx.prove(f"point:value[{i}]=reference_map", Q.of(y[i]) == _pw(x[i], list(ob), list(rb)))
        ctx.prove(f"point:value[{i}]>=0", Q.of(y[i]) >= 0)
    ctx.prove("point:f(0)=0", Q.of(y[npts]) == 0)
    ctx.prove("point:fixed_untouched", Q.of(y[npts + 1]) == x[npts + 1])
    for i, j in itertools.permutations(range(npts), 2):
        ctx.prove(f"point:monotone[{i},{j}]", Implies(x[i] <= x[j], Q.of(y[i]) <= Q.of(y[j])))
    ctx.tag("point")


def h_timescale(ctx, graph, intervals):
    """mutational_timescale + piecewise_scale_point_estimate (one rescaling iteration of
    ExpectationPropagation.rescale): breaks start at 0 and increase on both sides, the map is
    monotone on the node times, samples stay at 0."""
    from symx import load
    from symx.dom import Q, Implies
    rescaling = load.tsdate_module("rescaling")
    n, edges, fixed, ep, ec = _graph(graph)
    with load.patched(rescaling):
        t = _times(ctx, n, fixed)
        for p, c in edges:      # posterior means are not ordered in general, but the clock needs
            pass                # at least one edge of positive length: guaranteed by samples at 0
        lik = _liks(len(edges))
        try:
            ob, rb = rescaling.mutational_timescale(t, lik, np.array(fixed), ep, ec, intervals)
        except AssertionError as e:
            ctx.tag("assertion:" + str(e)[:40])
            ctx.note(repr(e))
            return
        except Exception as e:
            ctx.fail("no-exception", detail={"exception": repr(e)[:300]})
            return
        ctx.prove("timescale:original_breaks_start_at_0", Q.of(ob[0]) == 0)
        ctx.prove("timescale:rescaled_breaks_start_at_0", Q.of(rb[0]) == 0)
        for i in range(len(ob) - 1):
            ctx.prove(f"timescale:original_breaks_increase[{i}]", Q.of(ob[i + 1]) > ob[i])
            ctx.prove(f"timescale:rescaled_breaks_nondecreasing[{i}]", Q.of(rb[i + 1]) >= rb[i])
        inc = all(bool(Q.of(rb[i + 1]) > rb[i]) for i in range(len(rb) - 1))
        if not inc:
            ctx.tag("zero-count-interval")   # would trip "Use fewer rescaling intervals" (C35)
            return
        try:
            y = rescaling.piecewise_scale_point_estimate(t, np.array(fixed), ob, rb)
        except Exception as e:
            ctx.fail("no-exception", detail={"exception": repr(e)[:300]})
            return
    for i in range(n):
        if fixed[i]:
            ctx.prove(f"timescale:sample[{i}]_untouched", Q.of(y[i]) == t[i])
    free = [i for i in range(n) if not fixed[i]]
    for i, j in itertools.permutations(free, 2):
        ctx.prove(f"timescale:order_preserved[{i},{j}]", Implies(t[i] <= t[j], Q.of(y[i]) <= Q.of(y[j])))
    ctx.tag("timescale")


def _ginv_mono(ctx):
    """uninterpreted inverse incomplete gamma, positive and increasing in q"""
    from symx.uf import uf
    from symx.dom import Q

    def g(a, q):
        memo = ctx.uf_memo.get("gammainc_inv", [])
        before = len(memo)
        r = uf("gammainc_inv", (a, q), sign="pos")
        memo = ctx.uf_memo["gammainc_inv"]
        if len(memo) > before:
            ka = Q.of(a).key()
            for kk, args, res in memo[:-1]:
                if Q.of(args[0]).key() == ka:
                    q0 = Q.of(args[1])
                    if bool(q0 < Q.of(q)):
                        ctx.assume(res < r)
                    elif bool(Q.of(q) < q0):
                        ctx.assume(r < res)
        return r
    return g


def h_posterior(ctx, nb):
    """piecewise_scale_posterior on one free and one fixed row: mapped mean, capped shape,
    proper parameters, fixed row NaN."""
    from symx import load
    from symx.dom import sym, Q
    from symx.uf import uf
    rescaling = load.tsdate_module("rescaling")
    hypergeo = load.tsdate_module("hypergeo")
    with ep_h.patched_ep(more=("rescaling",)) as (var, approx, npx):
        g = _ginv_mono(ctx)
        saved = (hypergeo._gammainc_inv, hypergeo._gammainc_der, rescaling.gammainc_inv,
                 approx._KLMIN_MAXITT)
        hypergeo._gammainc_inv = g
        rescaling.gammainc_inv = g
        hypergeo._gammainc_der = lambda a, y: uf("gammainc_der", (a, y))
        approx._KLMIN_MAXITT = 0
        try:
            ob, rb = _breaks(ctx, nb, "ob"), _breaks(ctx, nb, "rb")
            post = npx.zeros((2, 2))
            post[0, 0], post[0, 1] = sym("a"), sym("b", "pos")
            ctx.assume(post[0, 0] > -1)
            post[1, 0], post[1, 1] = sym("ja"), sym("jb")
            ms = sym("max_shape")
            ctx.assume(ms > 1)
            try:
                new = rescaling.piecewise_scale_posterior(
                    post, np.array([False, True]), ob, rb, Q.of(1) / 2, ms)
            except approx.KLMinimizationFailedError:
                ctx.tag("raised-KL")
                return
            except Exception as e:
                ctx.fail("no-exception", detail={"exception": repr(e)[:300]})
                return
        finally:
            (hypergeo._gammainc_inv, hypergeo._gammainc_der, rescaling.gammainc_inv,
             approx._KLMIN_MAXITT) = saved
        a2, b2 = new[0]
        mean0 = (post[0, 0] + 1) / post[0, 1]
        ctx.prove("posterior:beta>0", Q.of(b2) > 0)
        ctx.prove("posterior:alpha>-1", Q.of(a2) > -1)
        ctx.prove("posterior:shape<=max_shape", Q.of(a2) + 1 <= ms)
        ctx.prove("posterior:mean_is_mapped_mean",
                  (Q.of(a2) + 1) == b2 * _pw(mean0, list(ob), list(rb)))
        ctx.prove("posterior:fixed_row_nan", all(isinstance(v, float) and v != v for v in new[1]))
        ctx.tag("posterior")


def cases(tier):
    from checks import c05
    cs = []
    for gname in (("cat3", "two_parents") if tier == "quick" else GRAPHS):
        cs.append(Case(f"area:{gname}", h_area, dict(graph=gname), weight=10,
                       shard_depth=3 if gname != "cat3" else 0))
    for nb, npts in ((2, 2), (3, 2), (4, 2)) + (((3, 3),) if tier == "thorough" else ()):
        cs.append(Case(f"point:nb{nb}:n{npts}", h_point, dict(nb=nb, npts=npts), weight=nb * npts))
    for gname, k in (("cat3", 1), ("cat3", 2), ("cat3", 3)) + \
            ((("two_parents", 2), ("bal4", 2)) if tier == "thorough" else ()):
        cs.append(Case(f"timescale:{gname}:k{k}", h_timescale, dict(graph=gname, intervals=k),
                       weight=20, shard_depth=2 if gname == "cat3" else 5))
    for nb in (2, 3):
        cs.append(Case(f"posterior:nb{nb}", h_posterior, dict(nb=nb), weight=30, shard_depth=3))
    cs.append(Case("iqr:equal", c05.h_iqr, dict(kind="equal")))
    cs.append(Case("iqr:sorted", c05.h_iqr, dict(kind="sorted"), weight=30))
    return cs


def run(tier, seed, t0):
    from symx import npx
    cs = cases(tier)
    outs = common.run_cases(cs)
    return common.finish(
        "C25", tier, seed, t0, outs,
        explanation="rescaling.mutational_area, mutational_timescale, piecewise_scale_point_estimate, "
        "piecewise_scale_posterior and approx.approximate_gamma_iqr are executed with symbolic node "
        "times (every ordering, by forking in argsort/searchsorted), symbolic per-edge counts and "
        "spans, symbolic breaks.  z3 proves: per-interval counts/areas equal the direct overlap sums; "
        "the point map equals the reference piecewise-linear map, fixes 0, is monotone and leaves "
        "fixed entries alone; one rescaling iteration keeps samples at 0 and preserves the order of "
        "node means; the re-projected posterior has the mapped mean, a positive rate and a shape in "
        "(0, max_shape].",
        functions=["tsdate.rescaling.mutational_area", "mutational_timescale", "_fixed_changepoints",
                   "piecewise_scale_point_estimate", "piecewise_scale_posterior",
                   "tsdate.approx.approximate_gamma_iqr"],
        bounds={"graphs": sorted(GRAPHS), "free_nodes": "<= 3", "breaks": "2-4",
                "rescaling_intervals": "1-3", "newton_iterations": "<= 1-2 (loop cap lowered in the "
                "harness)"},
        stubs=["hypergeo._gammainc_inv -> uninterpreted, positive, increasing in q",
               "_gammainc_der, math.log/exp/lgamma uninterpreted", "numpy via symx.npx"],
        assumptions=["exact reals", "paths on which an interval has zero mutation count (rescaled "
                     "breaks not strictly increasing) trip the kernels' own assertion and are counted "
                     "under C35, not here"],
        out_of_scope=["iterating rescale more than once", "the recovered original_breaks in "
                      "ExpectationPropagation.rescale (np.unique on node times)"],
        validated=npx.validate(),
        expect_tags=["area", "point", "timescale", "posterior", "capped", "uncapped"],
    )


def replay(payload):
    """Public API: variational_gamma with rescaling on real inputs: samples untouched, order of
    posterior means preserved by the rescaling step, shape <= max_shape, means mapped."""
    import tsdate
    from tsdate import rescaling
    from symx import skeletons as SK
    case = payload["case"]
    if case.startswith("area:"):
        return _replay_area(payload)
    bad = []
    for name, ts in (("bal4", SK.bal4()), ("two_tree", SK.two_tree()),
                     ("random", SK.random_skeleton(11, n=8, length=60))):
        for ms in (1000, 20, 5):
            for ri in (1, 2, 4):
                try:
                    _, f0 = tsdate.variational_gamma(ts, mutation_rate=0.05, max_shape=ms,
                                                     rescaling_intervals=0, return_fit=True,
                                                     max_iterations=5)
                    _, f1 = tsdate.variational_gamma(ts, mutation_rate=0.05, max_shape=ms,
                                                     rescaling_intervals=ri, rescaling_iterations=1,
                                                     return_fit=True, max_iterations=5)
                except AssertionError as e:
                    if "rescaling intervals" in repr(e):
                        continue
                    bad.append((name, ms, ri, repr(e)[:80]))
                    continue
                p0, p1 = f0.node_posteriors(), f1.node_posteriors()
                free = ~np.isin(np.arange(ts.num_nodes), ts.samples())
                if not np.array_equal(p1["mean"][~free], ts.nodes_time[~free]):
                    bad.append((name, ms, ri, "samples moved"))
                o0 = np.argsort(p0["mean"][free], kind="stable")
                m1 = p1["mean"][free][o0]
                if np.any(np.diff(m1) < -1e-9 * np.abs(m1[1:])):
                    bad.append((name, ms, ri, "order reversed"))
                shape = p1["mean"][free] ** 2 / p1["variance"][free]
                if np.any(shape > ms * (1 + 1e-9)):
                    bad.append((name, ms, ri, "shape>cap", float(shape.max())))
    return bool(bad), str(bad[:5])


def _replay_area(payload):
    from tsdate import rescaling
    kw = payload["case_kw"]
    m = common.model_floats(payload["model"])
    n, edges, fixed, ep, ec = _graph(kw["graph"])
    t = np.array([0.0 if fixed[i] else max(float(m.get(f"t{i}", 1.0 + i)), 1e-9) for i in range(n)])
    lik = np.array([[max(float(m.get(f"y{e}", 1.0)), 0.0), max(float(m.get(f"mu{e}", 1.0)), 1e-9)]
                    for e in range(len(edges))])
    counts, offset, duration, index = rescaling.mutational_area(t, lik, ep, ec)
    br = np.append(0.0, np.cumsum(duration))
    bad = []
    for k in range(len(duration)):
        c = o = 0.0
        for e, (p, ch) in enumerate(edges):
            if t[p] > t[ch] and t[ch] <= br[k] + 1e-12 and br[k + 1] <= t[p] + 1e-12:
                c += lik[e, 0] / (t[p] - t[ch])
                o += lik[e, 1]
        if abs(c - counts[k]) > 1e-9 * max(1, abs(c)) or abs(o - offset[k]) > 1e-9 * max(1, abs(o)):
            bad.append((k, counts[k], c, offset[k], o))
    return bool(bad), f"t={t.tolist()} {bad[:3]}"
