"""C38 - ignore_oldest_root ignores exactly the messages from the oldest root."""
import math

import numpy as np

from checks import common
from checks import discrete_h as D
from checks.c10 import _ts_for
from checks.common import Case


def oldest_root(ts):
    is_child = np.isin(np.arange(ts.num_nodes), ts.edges_child)
    is_parent = np.isin(np.arange(ts.num_nodes), ts.edges_parent)
    roots = np.where(is_parent & ~is_child)[0]
    return int(roots[np.argmax(ts.nodes_time[roots])])


def ref_outside(bp, skip_parent):
    """Reference outside pass written from the definition with the lik object's verified
    primitives (C10): messages from `skip_parent` are left out, nothing else."""
    lik = bp.lik
    out = {}
    for root, span_when_root in bp.root_spans.items():
        v = np.empty(lik.grid_size, dtype=object)
        frac = span_when_root / bp.spans[root]
        v[:] = [frac] * lik.grid_size
        out[root] = v
    inside, den = bp.inside, bp.denominator
    zero = np.empty(lik.grid_size, dtype=object)
    zero[:] = [0.0] * lik.grid_size
    for child, edges in bp.edges_by_child_desc():
        if child in bp.fixednodes:
            continue
        val = np.empty(lik.grid_size, dtype=object)
        val[:] = [1.0] * lik.grid_size
        for e in edges:
            if e.parent == skip_parent:
                continue
            spanfrac = e.span / bp.spans[child]
            lin = D.LinOps
            dv = lin.scale(spanfrac, lin.lower(lik, lin.row(inside[e.child])))
            cur = lin.div(lin.inside(lik, dv, e), lin.val(den[child]))
            idg = lin.div0(lin.row(inside[e.parent]), cur)
            pv = lin.scale(spanfrac, lin.upper(lik, lin.mul(out.get(e.parent, zero), idg)))
            val = lin.mul(val, lin.outside(lik, pv, e))
        out[child] = val
    return out


def h_ignore(ctx, skel, G, space, std=True, zero_first=True):
    from symx.dom import Q
    ts = _ts_for(skel)
    with D.setup(ctx, ts, G, space, zero_first=zero_first) as env:
        bp = env.bp
        try:
            bp.inside_pass()
            bp.outside_pass(standardize=std, ignore_oldest_root=True)
        except Exception as e:
            ctx.fail("no-exception", detail={"exception": repr(e)})
            return
        skip = oldest_root(ts)
        ref = ref_outside(bp, skip)
        for u in env.nonfixed:
            if int(u) in bp.root_spans and int(u) not in set(ts.edges_child):
                continue
            a = [D.to_lin(x, env.log) for x in bp.outside[u]]
            b = ref[int(u)]
            for i in range(G):
                for j in range(i + 1, G):
                    ctx.prove(f"ignore:outside[{u}]:proportional[{i},{j}]",
                              Q.of(a[i]) * b[j] == Q.of(a[j]) * b[i])
            ctx.prove(f"ignore:outside[{u}]:not_all_zero", sum(a[1:], a[0]) > 0)
        ctx.tag("ignore")


def cases(tier):
    cs = []
    skels = ["cat3", "root_not_last", "two_mrcas_oldest_last", "two_mrcas_oldest_first",
             "two_roots", "bal4"]
    if tier == "thorough":
        skels += ["cat4", "two_tree", "two_parents", "tri"]
    for sk in skels:
        for G in ((3,) if tier == "quick" else (3, 4)):
            for space in ("linear", "logarithmic"):
                for std in (True, False):
                    cs.append(Case(f"ignore:{sk}:G{G}:{space[:3]}:std{int(std)}", h_ignore,
                                   dict(skel=sk, G=G, space=space, std=std), weight=G))
    return cs


def run(tier, seed, t0):
    from symx import npx
    cs = cases(tier)
    outs = common.run_cases(cs)
    return common.finish(
        "C38", tier, seed, t0, outs,
        explanation="BeliefPropagation.inside_pass/outside_pass(ignore_oldest_root=True) are "
        "executed on real tskit inputs (single trees and two-tree inputs with two different roots, "
        "with the oldest root both last and not last in the node table) with symbolic priors, "
        "timepoints, rate, eps and uninterpreted Poisson values.  The outside vector of every "
        "non-sample node is proved proportional to a reference outside pass, written in the "
        "harness from the definition, that leaves out exactly the messages whose parent is the "
        "root with the greatest input time.",
        functions=["tsdate.discrete.BeliefPropagation.inside_pass/outside_pass/edges_by_child_desc",
                   "tsdate.discrete.Likelihoods/LogLikelihoods"],
        bounds={"inputs": sorted({c.kw["skel"] for c in cs}), "grid": "3 quick, 3-4 thorough",
                "options": "both spaces x standardize on/off"},
        stubs=["as C10 (uninterpreted Poisson, positive normalisers, logsumexp summary, "
               "uninterpreted multiplicative power for span fractions)"],
        assumptions=["exact reals", "the reference uses the likelihood object's own packing "
                     "primitives (make_lower/upper_tri, get_inside/get_outside), verified by C10"],
        out_of_scope=["rounding", "inputs with > 8 nodes"],
        validated=npx.validate(),
        expect_tags=["ignore"],
    )


def replay(payload):
    """Public API: inside_outside(ignore_oldest_root=True) against a brute-force-free
    statement of the property on the compiled code: the result must equal the result on the
    input with the oldest root's outgoing information removed, i.e. computed by the reference
    pass on doubles."""
    import tsdate
    from tsdate import discrete
    kw = payload["case_kw"]
    m = common.model_floats(payload["model"])
    ts = _ts_for(kw["skel"])
    G, space = kw["G"], kw["space"]
    tp = [0.0]
    for g in range(1, G):
        tp.append(tp[-1] + max(float(m.get(f"dt{g}", 1.0)), 1e-6))
    infos = []
    for mu, eps in ((0.05, 0.01), (0.2, 0.001),
                    (max(float(m.get("mu", 0.3)), 1e-9), max(float(m.get("eps", 1e-3)), 1e-12))):
        pri = tsdate.build_prior_grid(ts, population_size=1, timepoints=np.array(tp))
        for u in pri.nonfixed_nodes:
            row = [max(float(m.get(f"pr{u}_{g}", 1.0)), 1e-12) for g in range(G)]
            row[0] = 0.0
            pri[u] = np.array(row)
        cls = discrete.LogLikelihoods if space == "logarithmic" else discrete.Likelihoods
        lik = cls(ts, pri.timepoints, mu, None, eps=eps, fixed_node_set=set(ts.samples()))
        lik.precalculate_mutation_likelihoods()
        bp = discrete.BeliefPropagation(pri, lik)
        bp.inside_pass()
        bp.outside_pass(standardize=kw["std"], ignore_oldest_root=True)
        got = {int(u): np.asarray(bp.outside[u], dtype=float) for u in pri.nonfixed_nodes}
        # reference: same object, flag off, edges from the oldest root hidden
        skip = oldest_root(ts)
        orig = bp.edges_by_child_desc

        class _E:
            def __init__(s, e):
                s.__dict__.update(id=e.id, parent=e.parent, child=e.child, span=e.span,
                                  left=e.left, right=e.right)
        ref = _ref_concrete(bp, skip, space)
        bad = []
        for u, a in got.items():
            if u not in ref:
                continue
            b = ref[u]
            a = np.exp(a) if space == "logarithmic" else a
            sa, sb = a.sum(), b.sum()
            if sa <= 0 or sb <= 0 or not np.allclose(a / sa, b / sb, rtol=1e-6, atol=1e-300):
                bad.append((u, (a / sa).tolist(), (b / sb).tolist()))
        if bad:
            return True, f"oldest root {skip}; mu={mu} eps={eps}: {str(bad)[:500]}"
        infos.append(f"ok at mu={mu}")
    return False, "; ".join(infos)


def _ref_concrete(bp, skip, space):
    lik = bp.lik
    log = space == "logarithmic"
    f = (lambda x: np.exp(np.asarray(x, dtype=float))) if log else (lambda x: np.asarray(x, dtype=float))
    out = {}
    for root, sw in bp.root_spans.items():
        out[root] = np.full(lik.grid_size, sw / bp.spans[root])
    lin_lik = {}
    for child, edges in bp.edges_by_child_desc():
        if child in bp.fixednodes:
            continue
        val = np.ones(lik.grid_size)
        for e in edges:
            if e.parent == skip:
                continue
            sf = e.span / bp.spans[child]
            L = f(lik.get_mut_lik_lower_tri(e))
            dv = f(bp.inside[e.child])[lik.to_lower_tri] ** sf
            edge_lik = np.add.reduceat(dv * L, lik.row_indices[0])
            cur = edge_lik / f(bp.denominator[child])
            with np.errstate(divide="ignore", invalid="ignore"):
                idg = f(bp.inside[e.parent]) / cur
            idg[np.isnan(idg)] = 0.0
            pv = ((out.get(e.parent, np.zeros(lik.grid_size)) * idg)[lik.to_upper_tri]) ** sf
            Lu = L[np.concatenate(lik.row_indices)]
            val = val * np.add.reduceat(pv * Lu, lik.col_indices)
        out[child] = val
    return out
