"""C11 - discrete-time dating is invariant to the numbering and the (uncalibrated) input
times of non-sample nodes."""
import itertools
import math

import numpy as np

from checks import common
from checks import discrete_h as D
from checks.c10 import _ts_for
from checks.common import Case

RETIME = {   # skeleton -> {node: new time} (valid, changes the relative order where possible)
    "bal4": {4: 2.0, 5: 1.0, 6: 5.0},
    "cat3": {3: 0.25, 4: 7.0},
    "cat4": {4: 0.5, 5: 0.75, 6: 9.0},
    "two_tree": {3: 1.3, 4: 0.7, 5: 4.0},
    "two_parents": {3: 0.1, 4: 5.0, 5: 2.0},
    "tri": {3: 42.0},
    "root_not_last": {3: 9.0, 4: 0.5},
    "two_mrcas_oldest_last": {4: 1.5, 5: 0.2, 6: 4.0, 7: 2.5},
}


def variant(ts, perm=None, retime=None):
    """Renumber non-sample nodes by `perm` (old id -> new id) and/or re-time them."""
    t = ts.dump_tables()
    if retime:
        tm = t.nodes.time.copy()
        for u, v in retime.items():
            tm[u] = v
        t.nodes.time = tm
        t.mutations.time = np.full(t.mutations.num_rows, tskit_unknown())
    if perm:
        order = np.zeros(ts.num_nodes, dtype=np.int32)   # order[new] = old
        for old in range(ts.num_nodes):
            order[perm.get(old, old)] = old
        t.subset(order)
    t.sort()
    t.build_index()
    t.compute_mutation_parents()
    return t.tree_sequence()


def tskit_unknown():
    import tskit
    return tskit.UNKNOWN_TIME


def _run(env, ts, kind, space):
    m = D.make_method(env, ts, kind)
    if kind == "inside_outside":
        return m.run(eps=env.eps, outside_standardize=True, ignore_oldest_root=False,
                     probability_space=space, num_threads=None, cache_inside=False)
    return m.run(eps=env.eps, probability_space=space, num_threads=None, cache_inside=False)


def h_invariant(ctx, skel, G, kind, space, perm=None, retime=False):
    from symx.dom import Q
    A = _ts_for(skel)
    perm = {int(k): int(v) for k, v in (perm or {}).items()}
    B = variant(A, perm or None, RETIME[skel] if retime else None)
    inv = {v: k for k, v in perm.items()}
    res = {}
    for name, ts, nm in (("A", A, lambda u: str(u)), ("B", B, lambda u: str(inv.get(u, u)))):
        with D.setup(ctx, ts, G, space, build="method", node_name=nm) as env:
            try:
                res[name] = (_run(env, ts, kind, space), env)
            except Exception as e:
                ctx.fail(f"no-exception:{name}", detail={"exception": repr(e)})
                return
    (ra, ea), (rb, eb) = res["A"], res["B"]
    for u in range(A.num_nodes):
        v = perm.get(u, u)
        ctx.prove(f"{kind}:mean[{u}->{v}]", Q.of(ra.posterior_mean[u]) == rb.posterior_mean[v])
        if kind == "inside_outside":
            ctx.prove(f"{kind}:var[{u}->{v}]", Q.of(ra.posterior_var[u]) == rb.posterior_var[v])
    if kind == "inside_outside":
        pa, pb = ra.fit_object.posterior_grid, rb.fit_object.posterior_grid
        for u in ea.nonfixed:
            v = perm.get(int(u), int(u))
            for g in range(G):
                ctx.prove(f"io:post[{u}->{v}][{g}]", Q.of(pa[u][g]) == pb[v][g])
    ctx.prove(f"{kind}:marginal", D.to_lin(ra.mutation_lik, ea.log) == D.to_lin(rb.mutation_lik, eb.log))
    ctx.tag(kind + (":perm" if perm else "") + (":retime" if retime else ""))


def _perms(ts, limit):
    internal = [u for u in range(ts.num_nodes) if u not in set(ts.samples())]
    out = []
    for p in itertools.permutations(internal):
        if list(p) == internal:
            continue
        out.append({str(a): int(b) for a, b in zip(internal, p)})
        if len(out) >= limit:
            break
    return out


def cases(tier):
    cs = []
    spec = [("cat3", 3), ("bal4", 3), ("two_tree", 3), ("two_parents", 3), ("root_not_last", 3)]
    if tier == "thorough":
        spec += [("cat4", 3), ("tri", 4), ("two_mrcas_oldest_last", 3), ("cat3", 4), ("bal4", 4)]
    for sk, G in spec:
        ts = _ts_for(sk)
        perms = _perms(ts, 2 if tier == "quick" else 24)
        for kind in ("inside_outside", "maximization"):
            for space in (("logarithmic",) if tier == "quick" else ("linear", "logarithmic")):
                for i, pm in enumerate(perms):
                    cs.append(Case(f"perm:{sk}:G{G}:{kind[:3]}:{space[:3]}:p{i}", h_invariant,
                                   dict(skel=sk, G=G, kind=kind, space=space, perm=pm), weight=G))
                if sk in RETIME:
                    cs.append(Case(f"retime:{sk}:G{G}:{kind[:3]}:{space[:3]}", h_invariant,
                                   dict(skel=sk, G=G, kind=kind, space=space, retime=True),
                                   weight=G))
                    if perms:
                        cs.append(Case(f"both:{sk}:G{G}:{kind[:3]}:{space[:3]}", h_invariant,
                                       dict(skel=sk, G=G, kind=kind, space=space, perm=perms[-1],
                                            retime=True), weight=G))
    return cs


def run(tier, seed, t0):
    from symx import npx
    cs = cases(tier)
    outs = common.run_cases(cs)
    return common.finish(
        "C11", tier, seed, t0, outs,
        explanation="core.InsideOutsideMethod.run / MaximizationMethod.run are executed on a real "
        "tskit input and on the same genealogy with its non-sample nodes renumbered (tables.subset) "
        "and/or re-timed, sharing all symbols through a node-name map.  z3 proves equality of the "
        "mapped posterior probabilities, means, variances, chosen maximization timepoints and the "
        "marginal likelihood on every path.  (The forced constraint pass under every children-first "
        "edge order is part of C27/C01 thorough.)",
        functions=["tsdate.core.InsideOutsideMethod.run", "tsdate.core.MaximizationMethod.run",
                   "tsdate.discrete.BeliefPropagation.*", "edges_by_parent_asc/child_desc/"
                   "child_then_parent_desc"],
        bounds={"inputs": sorted({c.kw["skel"] for c in cs}),
                "renumberings": "2 per input quick, all (<= 24) thorough", "grid": "3 (4 thorough)"},
        stubs=["as C10"],
        assumptions=["exact reals; samples at time 0; ignore_oldest_root off"],
        out_of_scope=["rounding", "prior construction (priors are symbolic here; their invariance is "
                      "a property of the span tables, C15)"],
        validated=npx.validate(),
        expect_tags=["inside_outside:perm", "maximization:perm", "inside_outside:retime",
                     "maximization:retime"],
    )


def replay(payload):
    import tsdate
    kw = payload["case_kw"]
    m = common.model_floats(payload["model"])
    A = _ts_for(kw["skel"])
    perm = {int(k): int(v) for k, v in (kw.get("perm") or {}).items()}
    B = variant(A, perm or None, RETIME[kw["skel"]] if kw.get("retime") else None)
    G, space = kw["G"], kw["space"]
    tp = [0.0]
    for g in range(1, G):
        tp.append(tp[-1] + max(float(m.get(f"dt{g}", 1.0)), 1e-6))
    inv = {v: k for k, v in perm.items()}
    for mu, eps in ((0.05, 0.01), (0.3, 0.001)):
        outs = []
        for ts, nm in ((A, lambda u: u), (B, lambda u: inv.get(u, u))):
            pri = tsdate.build_prior_grid(ts, population_size=1, timepoints=np.array(tp))
            for u in pri.nonfixed_nodes:
                row = [max(float(m.get(f"pr{nm(int(u))}_{g}", 1.0 + 0.1 * nm(int(u)) + 0.01 * g)), 1e-12)
                       for g in range(G)]
                row[0] = 0.0
                pri[u] = np.array(row)
            f = tsdate.inside_outside if kw["kind"] == "inside_outside" else tsdate.maximization
            outs.append(f(ts, mutation_rate=mu, priors=pri, eps=eps, probability_space=space))
        a, b = outs
        bad = [(u, a.nodes_time[u], b.nodes_time[perm.get(u, u)]) for u in range(A.num_nodes)
               if not abs(a.nodes_time[u] - b.nodes_time[perm.get(u, u)]) <= 1e-7 * max(1, a.nodes_time[u])]
        if bad:
            return True, f"mu={mu} eps={eps}: {bad}"
    return False, "dates agree"
