"""C06 - changing the time unit rescales all outputs (relational execution, symbolic c > 0)."""
import itertools
import math

import numpy as np

from checks import common, ep_h, constrain, c25, c17
from checks import discrete_h as D
from checks.common import Case
from symx import skeletons as SK

# argument kinds: s = shape (unitless), r = rate (1/time), t = age (time), y = count
SIG = {
    "moments": ("srsryr", ("l", "m", "v", "m", "v")),
    "rootward_moments": ("tsryr", ("l", "m", "v")),
    "leafward_moments": ("tsryr", ("l", "m", "v")),
    "unphased_moments": ("srsryr", ("l", "m", "v", "m", "v")),
    "twin_moments": ("sryr", ("l", "m", "v")),
    "sideways_moments": ("tsryr", ("l", "m", "v")),
    "mutation_moments": ("srsryr", ("m", "v")),
    "mutation_rootward_moments": ("tsryr", ("m", "v")),
    "mutation_leafward_moments": ("tsryr", ("m", "v")),
    "mutation_unphased_moments": ("srsryr", ("p", "m", "v")),
    "mutation_twin_moments": ("sryr", ("p", "m", "v")),
    "mutation_sideways_moments": ("tsryr", ("p", "m", "v")),
    "mutation_edge_moments": ("tt", ("m", "v")),
    "mutation_block_moments": ("tt", ("p", "m", "v")),
}
# projections: t = fixed age, P = node natural parameters (alpha, beta), L = (count, rate)
PROJ = {
    "gamma_projection": ("PPL", "lPP"), "leafward_projection": ("tPL", "lP"),
    "rootward_projection": ("tPL", "lP"), "unphased_projection": ("PPL", "lPP"),
    "twin_projection": ("PL", "lP"), "sideways_projection": ("tPL", "lP"),
    "mutation_gamma_projection": ("PPL", "pP"), "mutation_leafward_projection": ("tPL", "pP"),
    "mutation_rootward_projection": ("tPL", "pP"), "mutation_edge_projection": ("tt", "pP"),
    "mutation_unphased_projection": ("PPL", "pP"), "mutation_twin_projection": ("PL", "pP"),
    "mutation_sideways_projection": ("tPL", "pP"), "mutation_block_projection": ("tt", "pP"),
}


def _isnan(v):
    """NaN or +-inf: a float left by the skip path or by a division by zero on this path."""
    return isinstance(v, float) and (v != v or v in (math.inf, -math.inf))


def _pat(v):
    return repr(v) if _isnan(v) else "finite"


def _hyp_stubs(hypergeo):
    from symx.uf import uf
    return {
        "_hyp2f1_laplace": lambda a, b, c, z: uf("hyp2f1", (a, b, c, z)),
        "_hyp1f1_laplace": lambda a, b, z: uf("hyp1f1", (a, b, z)),
        "_hyperu_laplace": lambda a, b, z: (uf("hyperu_f", (a, b, z)), uf("hyperu_d", (a, b, z))),
        "_betaln": lambda p, q: uf("betaln", (p, q)),
    }


class _patched_hyp:
    def __init__(self):
        from symx import load
        self.h = load.tsdate_module("hypergeo")

    def __enter__(self):
        self.saved = {k: getattr(self.h, k) for k in _hyp_stubs(self.h)}
        for k, f in _hyp_stubs(self.h).items():
            setattr(self.h, k, f)

    def __exit__(self, *a):
        for k, f in self.saved.items():
            setattr(self.h, k, f)


def _relate(ctx, name, kinds, out1, out2, c):
    from symx.dom import Q
    nan1 = [_isnan(v) for v in out1]
    nan2 = [_isnan(v) for v in out2]
    ctx.prove(f"{name}:same_skip_decision", [_pat(v) for v in out1] == [_pat(v) for v in out2])
    if nan1 != nan2:
        return
    for i, k in enumerate(kinds):
        if nan1[i] or k == "l":
            continue
        a, b = Q.of(out1[i]), Q.of(out2[i])
        if k == "m":
            ctx.prove(f"{name}:out[{i}]:mean_times_c", b == a * c)
        elif k == "v":
            ctx.prove(f"{name}:out[{i}]:variance_times_c2", b == a * c * c)
        elif k == "p":
            ctx.prove(f"{name}:out[{i}]:probability_unchanged", b == a)
    ctx.tag("skip" if all(nan1[i] for i, k in enumerate(kinds) if k != "l") else "valid")


def h_moments(ctx, name):
    from symx.dom import sym
    kinds, outs = SIG[name]
    c = sym("c", "pos")
    a1, a2 = [], []
    for i, k in enumerate(kinds):
        if k == "s":
            v = sym(f"a{i}")
            a1.append(v), a2.append(v)
        elif k == "y":
            v = sym(f"y{i}", "nonneg")
            a1.append(v), a2.append(v)
        elif k == "r":
            v = sym(f"r{i}")
            a1.append(v), a2.append(v / c)
        elif k == "t":
            v = sym(f"t{i}", "nonneg")
            a1.append(v), a2.append(v * c)
    if kinds == "tt":
        ctx.assume(a1[0] > a1[1])
    with ep_h.patched_ep() as (var, approx, npx), _patched_hyp():
        f = getattr(approx, name)
        try:
            o1 = f(*a1)
            o2 = f(*a2)
        except AssertionError:
            ctx.tag("assert")      # t_i > 0 preconditions of the fixed-age variants
            return
        except Exception as e:
            ctx.fail("no-exception", detail={"exception": repr(e)[:300]})
            return
    _relate(ctx, name, outs, o1, o2, c)


def h_projection(ctx, name):
    from symx.dom import sym, Q
    kinds, outs = PROJ[name]
    c = sym("c", "pos")
    a1, a2 = [], []
    with ep_h.patched_ep() as (var, approx, npx), _patched_hyp():
        for i, k in enumerate(kinds):
            if k == "t":
                v = sym(f"t{i}", "nonneg")
                a1.append(v), a2.append(v * c)
            elif k == "P":
                al, be = sym(f"al{i}"), sym(f"be{i}")
                a1.append(npx.array([al, be])), a2.append(npx.array([al, be / c]))
            elif k == "L":
                y, mu = sym("y", "nonneg"), sym("mu", "pos")
                a1.append(npx.array([y, mu])), a2.append(npx.array([y, mu / c]))
        if kinds == "tt":
            ctx.assume(a1[0] > a1[1])
        f = getattr(approx, name)
        try:
            o1 = f(*a1)
            o2 = f(*a2)
        except AssertionError:
            ctx.tag("assert")
            return
        except Exception as e:
            ctx.fail("no-exception", detail={"exception": repr(e)[:300]})
            return
    skip1, skip2 = _isnan(o1[0]), _isnan(o2[0])
    ctx.prove(f"{name}:same_skip_decision", skip1 == skip2)
    if skip1 != skip2:
        return
    for i, k in enumerate(outs):
        if k == "p" and not skip1:
            ctx.prove(f"{name}:probability_unchanged", Q.of(o2[i]) == Q.of(o1[i]))
        if k == "P":
            p1, p2 = o1[i], o2[i]
            if _isnan(p1[0]) or _isnan(p2[0]):
                ctx.prove(f"{name}:out[{i}]:both_nan", _isnan(p1[0]) and _isnan(p2[0])
                          and _isnan(p1[1]) and _isnan(p2[1]))
                continue
            ctx.prove(f"{name}:out[{i}]:shape_unchanged", Q.of(p2[0]) == Q.of(p1[0]))
            ctx.prove(f"{name}:out[{i}]:rate_divided_by_c", Q.of(p2[1]) * c == Q.of(p1[1]))
    ctx.tag("skip" if skip1 else "valid")


def _scaled_state(st, c):
    """copy of an EP state in another time unit: every second natural parameter / c"""
    import copy
    st2 = copy.copy(st)
    f2 = copy.copy(st.factors)
    for nm in ("node", "edge", "block", "scale"):
        setattr(f2, nm, getattr(st.factors, nm).copy())
    for arr in (f2.node, f2.edge, f2.block):
        for idx in np.ndindex(arr.shape[:-1]):
            arr[idx + (1,)] = arr[idx + (1,)] / c
    st2.factors = f2
    st2.posterior = st.posterior.copy()
    for i in range(st.n):
        st2.posterior[i, 1] = st2.posterior[i, 1] / c
    return st2


def _call_prior(var, free, post, factors, max_shape, em_maxitt, reltol):
    """propagate_prior as ExpectationPropagation.iterate calls it: parameters this harness does
    not know about take iterate's own defaults."""
    import inspect
    f = var.ExpectationPropagation.propagate_prior
    names = list(inspect.signature(f).parameters)
    given = dict(free=free, posterior=post, factors=factors, max_shape=max_shape,
                 em_maxitt=em_maxitt, em_reltol=reltol)
    dflt = {k: v.default for k, v in
            inspect.signature(var.ExpectationPropagation.iterate).parameters.items()}
    args = [given[n] if n in given else dflt[n] for n in names]
    return f(*args)


def h_prior_step(ctx, config, em_maxitt):
    """propagate_prior (EM fit of the exponential root prior, <= em_maxitt + 1 iterations) from an
    arbitrary valid EP state and from the same state in another time unit."""
    from symx.dom import sym, Q
    from checks import ep_cases
    c = sym("c", "pos")
    with ep_h.patched_ep() as (var_, approx, npx):
        var, st, max_shape, min_step = ep_cases._common(ctx, config, "I", tiny=False)
        is_child = {cc for p, cc in st.edges}
        free = np.array([(not st.fixed[i]) and i not in is_child for i in range(st.n)])
        for i in range(st.n):
            if not st.fixed[i]:
                ctx.assume(st.posterior[i, 0] + 1 <= max_shape)
        for i in np.flatnonzero(free):
            cav = st.posterior[i] - st.factors.node[i, 0] * st.factors.scale[i]
            ctx.assume(cav[0] > -1)
            ctx.assume(cav[1] > 0)
        st2 = _scaled_state(st, c)
        reltol = sym("reltol", "pos")
        try:
            _call_prior(var, free, st.posterior, st.factors, max_shape, em_maxitt, reltol)
            _call_prior(var, free.copy(), st2.posterior, st2.factors, max_shape, em_maxitt, reltol)
        except Exception as e:
            ctx.fail("no-exception", detail={"exception": repr(e)[:300]})
            return
    for i in range(st.n):
        if st.fixed[i]:
            continue
        ctx.prove(f"prior_step:node[{i}]:shape_same", Q.of(st2.posterior[i, 0]) == Q.of(st.posterior[i, 0]))
        ctx.prove(f"prior_step:node[{i}]:rate_divided_by_c",
                  Q.of(st2.posterior[i, 1]) * c == Q.of(st.posterior[i, 1]))
        ctx.prove(f"prior_step:node[{i}]:scale_same", Q.of(st2.factors.scale[i]) == Q.of(st.factors.scale[i]))
        for k in range(2):
            ctx.prove(f"prior_step:node[{i}]:prior_message[{k}]",
                      Q.of(st2.factors.node[i, 0, k]) * (c if k else 1) == Q.of(st.factors.node[i, 0, k]))
    ctx.tag("prior-step")


class _Desync(Exception):
    pass


def h_like_step(ctx, config, order, unphased=False):
    """One propagate_likelihood call from an arbitrary valid EP state and from the same state in
    another time unit.  The moment functions are stubs: in the first run 'NaN or arbitrary', in
    the second run the k-th call returns the first run's k-th result in the new unit (means * c,
    variances * c^2) - which is what h_moments proves of the real functions PROVIDED the
    arguments correspond, and that correspondence is an obligation here."""
    from symx.dom import sym, Q, choice, fresh
    from checks import ep_cases
    c = sym("c", "pos")
    rec = {"run": 0, "calls": ([], [])}

    def make(name):
        kinds, outs = SIG[name]

        def stub(*args):
            r = rec["run"]
            k = len(rec["calls"][r])
            if r == 0:
                if choice(f"skip_{name}_{k}_"):
                    out = tuple([math.nan] * len(outs))
                else:
                    out = tuple(fresh(f"{name}_{k}_r{i}_") for i in range(len(outs)))
                rec["calls"][0].append((name, args, out))
                return out
            rec["calls"][1].append((name, args))
            if k >= len(rec["calls"][0]) or rec["calls"][0][k][0] != name:
                raise _Desync(name)
            out0 = rec["calls"][0][k][2]
            if _isnan(out0[0]):
                return out0
            return tuple(o if kd in "lp" else (o * c if kd == "m" else o * c * c)
                         for o, kd in zip(out0, outs))
        return stub

    with ep_h.patched_ep() as (var_, approx, npx):
        saved = {nm: getattr(approx, nm) for nm in ep_cases.NODE_MOMENTS}
        for nm in saved:
            setattr(approx, nm, make(nm))
        try:
            var, st, max_shape, min_step = ep_cases._common(ctx, config, "I", tiny=False)
            if unphased:
                ep, ec = st.bj, st.bk
                lik = ep_cases._liks("b", len(st.blocks))
            else:
                ep, ec = st.ep, st.ec
                lik = ep_cases._liks("e", len(st.edges))
            for i in range(st.n):
                if not st.fixed[i]:
                    ctx.assume(st.posterior[i, 0] + 1 <= max_shape)
            st2 = _scaled_state(st, c)
            cons2 = st.constraints.copy()
            for i in range(st.n):
                if st.fixed[i]:
                    cons2[i, 0] = cons2[i, 0] * c if not isinstance(cons2[i, 0], float) else cons2[i, 0] * 1.0
                    cons2[i, 1] = cons2[i, 1] * c if not isinstance(cons2[i, 1], float) else cons2[i, 1] * 1.0
            lik2 = lik.copy()
            for e in range(lik.shape[0]):
                lik2[e, 1] = lik[e, 1] / c
            try:
                var.ExpectationPropagation.propagate_likelihood(
                    np.array(order, dtype=np.int32), ep, ec, lik, st.constraints, st.posterior,
                    st.factors, npx.zeros(len(ep)), max_shape, min_step, unphased)
                rec["run"] = 1
                var.ExpectationPropagation.propagate_likelihood(
                    np.array(order, dtype=np.int32), ep, ec, lik2, cons2, st2.posterior,
                    st2.factors, npx.zeros(len(ep)), max_shape, min_step, unphased)
            except _Desync as e:
                ctx.fail("like_step:same_sequence_of_moment_calls", detail={"second_run_called": str(e)})
                return
            except Exception as e:
                ctx.fail("no-exception", detail={"exception": repr(e)[:300], "run": rec["run"]})
                return
        finally:
            for nm, f in saved.items():
                setattr(approx, nm, f)
    c0, c1 = rec["calls"]
    ctx.prove("like_step:same_number_of_moment_calls", len(c0) == len(c1))
    for k, ((nm, a0, _), (nm1, a1)) in enumerate(zip(c0, c1)):
        for j, kd in enumerate(SIG[nm][0]):
            x0, x1 = Q.of(a0[j]), Q.of(a1[j])
            if kd in "sy":
                ctx.prove(f"like_step:call{k}:{nm}:arg{j}_same", x1 == x0)
            elif kd == "r":
                ctx.prove(f"like_step:call{k}:{nm}:arg{j}_rate_divided_by_c", x1 * c == x0)
            else:
                ctx.prove(f"like_step:call{k}:{nm}:arg{j}_age_times_c", x1 == x0 * c)
    for i in range(st.n):
        if st.fixed[i]:
            continue
        ctx.prove(f"like_step:node[{i}]:shape_same", Q.of(st2.posterior[i, 0]) == Q.of(st.posterior[i, 0]))
        ctx.prove(f"like_step:node[{i}]:rate_divided_by_c", Q.of(st2.posterior[i, 1]) * c == Q.of(st.posterior[i, 1]))
        ctx.prove(f"like_step:node[{i}]:scale_same", Q.of(st2.factors.scale[i]) == Q.of(st.factors.scale[i]))
    arr1 = st.factors.block if unphased else st.factors.edge
    arr2 = st2.factors.block if unphased else st2.factors.edge
    for idx in np.ndindex(arr1.shape):
        ctx.prove(f"like_step:message{list(idx)}",
                  Q.of(arr2[idx]) * (c if idx[-1] == 1 else 1) == Q.of(arr1[idx]))
    ctx.tag("like-step")


def h_damp(ctx):
    from symx.dom import sym, Q
    c = sym("c", "pos")
    with ep_h.patched_ep() as (var, approx, npx):
        x = npx.array([sym("x0"), sym("x1")])
        y = npx.array([sym("y0"), sym("y1")])
        s = sym("s", "pos")
        ms = sym("max_shape")
        ctx.assume(s < 1)
        ctx.assume(ms > 1)
        x2 = npx.array([x[0], x[1] / c])
        y2 = npx.array([y[0], y[1] / c])
        out = []
        for f, a in ((var._damp, (x, y, s)), (var._damp, (x2, y2, s)),
                     (var._rescale, (x, ms)), (var._rescale, (x2, ms))):
            try:
                out.append(("ok", f(*a)))
            except AssertionError:
                out.append(("assert", None))
            except Exception as e:
                ctx.fail("no-exception", detail={"exception": repr(e)[:300]})
                return
    ctx.prove("damp:same_outcome", out[0][0] == out[1][0])
    ctx.prove("rescale:same_outcome", out[2][0] == out[3][0])
    if out[0][0] == out[1][0] == "ok":
        ctx.prove("damp:same_factor", Q.of(out[0][1]) == Q.of(out[1][1]))
    if out[2][0] == out[3][0] == "ok":
        ctx.prove("rescale:same_factor", Q.of(out[2][1]) == Q.of(out[3][1]))
    ctx.tag("damp")


def h_constrain(ctx, skel, iters):
    from symx import load
    from symx.dom import sym, Q
    util = load.tsdate_module("util")
    ts, ep, ec, fixed = constrain.structure(skel, None)
    t, eps = constrain._sym_inputs(ctx, ts, fixed, True)
    c = sym("c", "pos")
    t2 = np.empty(len(t), dtype=object)
    for i in range(len(t)):
        t2[i] = t[i] * c
    with load.patched(util):
        try:
            o1 = util._constrain_ages(t, fixed, ep, ec, eps, iters)
            o2 = util._constrain_ages(t2, fixed, ep, ec, eps * c, iters)
        except Exception as e:
            ctx.fail("no-exception", detail={"exception": repr(e)[:300]})
            return
    for i in range(len(t)):
        ctx.prove(f"constrain:node[{i}]:time_times_c", Q.of(o2[i]) == Q.of(o1[i]) * c)
    ctx.tag("constrain")


def h_timescale(ctx, graph, intervals):
    from symx import load
    from symx.dom import sym, Q
    rescaling = load.tsdate_module("rescaling")
    n, edges, fixed, ep, ec = c25._graph(graph)
    c = sym("c", "pos")
    with load.patched(rescaling):
        t = c25._times(ctx, n, fixed)
        lik = c25._liks(len(edges))
        t2 = np.empty(n, dtype=object)
        for i in range(n):
            t2[i] = t[i] * c
        lik2 = lik.copy()
        for e in range(len(edges)):
            lik2[e, 1] = lik[e, 1] / c
        res = []
        for tt, ll in ((t, lik), (t2, lik2)):
            try:
                ob, rb = rescaling.mutational_timescale(tt, ll, np.array(fixed), ep, ec, intervals)
            except AssertionError as e:
                res.append(("assert", str(e)[:40]))
                continue
            except Exception as e:
                ctx.fail("no-exception", detail={"exception": repr(e)[:300]})
                return
            inc = all(bool(Q.of(rb[i + 1]) > rb[i]) for i in range(len(rb) - 1))
            if not inc:
                res.append(("flat", ob, rb))
                continue
            try:
                y = rescaling.piecewise_scale_point_estimate(tt, np.array(fixed), ob, rb)
            except Exception as e:
                ctx.fail("no-exception", detail={"exception": repr(e)[:300]})
                return
            res.append(("ok", ob, rb, y))
    ctx.prove("timescale:same_outcome_kind", res[0][0] == res[1][0])
    if res[0][0] != res[1][0] or res[0][0] == "assert":
        ctx.tag("assert")
        return
    ctx.prove("timescale:same_number_of_breaks", len(res[0][1]) == len(res[1][1]))
    if len(res[0][1]) != len(res[1][1]):
        return
    for i in range(len(res[0][1])):
        ctx.prove(f"timescale:original_break[{i}]_times_c", Q.of(res[1][1][i]) == Q.of(res[0][1][i]) * c)
        ctx.prove(f"timescale:rescaled_break[{i}]_times_c", Q.of(res[1][2][i]) == Q.of(res[0][2][i]) * c)
    if res[0][0] == "ok":
        for i in range(n):
            ctx.prove(f"timescale:node[{i}]_times_c", Q.of(res[1][3][i]) == Q.of(res[0][3][i]) * c)
        ctx.tag("timescale")
    else:
        ctx.tag("flat")


def h_popsize(ctx, nep, nt):
    from symx import load
    from symx.dom import sym, Q
    from fractions import Fraction
    demography = load.tsdate_module("demography")
    c = sym("c", "pos")
    with load.patched(demography):
        try:
            N = [sym(f"N{i}", "pos") for i in range(nep)]
            breaks, acc = [], Q(Fraction(0))
            for i in range(1, nep):
                acc = acc + sym(f"db{i}", "pos")
                breaks.append(acc)
            h1 = demography.PopulationSizeHistory(N, breaks if breaks else None)
            h2 = demography.PopulationSizeHistory([x * c for x in N],
                                                  [b * c for b in breaks] if breaks else None)
            tv = np.empty(nt, dtype=object)
            tv[:] = [sym(f"t{i}", "nonneg") for i in range(nt)]
            tv2 = np.empty(nt, dtype=object)
            tv2[:] = [v * c for v in tv]
            co1 = h1.to_coalescent_timescale(tv)
            co2 = h2.to_coalescent_timescale(tv2)
            cv = np.empty(nt, dtype=object)
            cv[:] = [sym(f"u{i}", "nonneg") for i in range(nt)]
            na1 = h1.to_natural_timescale(cv)
            na2 = h2.to_natural_timescale(cv.copy())
        except Exception as e:
            ctx.fail("no-exception", detail={"exception": repr(e)[:300]})
            return
    for i in range(nt):
        ctx.prove(f"popsize:coalescent_time[{i}]_unchanged", Q.of(co2[i]) == Q.of(co1[i]))
        ctx.prove(f"popsize:natural_time[{i}]_times_c", Q.of(na2[i]) == Q.of(na1[i]) * c)
    ctx.tag("popsize")


def _ts_for(skel):
    return SK.all_named()[skel]()


def h_discrete(ctx, skel, G, space, kind):
    """The whole InsideOutsideMethod.run / MaximizationMethod.run on one input in two time
    units (same symbolic priors, which live on the coalescent scale: C16/h_popsize)."""
    from symx.dom import sym, Q
    ts = _ts_for(skel)
    c = sym("c", "pos")
    res = []
    for scale in (None, c):
        with D.setup(ctx, ts, G, space, build="method", scale=scale) as env:
            m = D.make_method(env, ts, kind)
            try:
                if kind == "inside_outside":
                    r = m.run(eps=env.eps, outside_standardize=True, ignore_oldest_root=False,
                              probability_space=space, num_threads=None, cache_inside=False)
                else:
                    r = m.run(eps=env.eps, probability_space=space, num_threads=None,
                              cache_inside=False)
            except Exception as e:
                ctx.fail("no-exception", detail={"exception": repr(e)[:300], "scale": str(scale)})
                return
            res.append((r, env))
    (r1, e1), (r2, e2) = res
    samples = set(int(s) for s in ts.samples())
    for u in range(ts.num_nodes):
        if u in samples:
            continue
        ctx.prove(f"discrete:{kind}:mean[{u}]_times_c",
                  Q.of(r2.posterior_mean[u]) == Q.of(r1.posterior_mean[u]) * c)
        if kind == "inside_outside":
            ctx.prove(f"discrete:{kind}:var[{u}]_times_c2",
                      Q.of(r2.posterior_var[u]) == Q.of(r1.posterior_var[u]) * c * c)
    ctx.tag("discrete-" + kind)


def cases(tier):
    cs = []
    for nm in SIG:
        cs.append(Case(f"moments:{nm}", h_moments, dict(name=nm)))
    for nm in PROJ:
        cs.append(Case(f"projection:{nm}", h_projection, dict(name=nm), weight=5))
    cs.append(Case("damp_rescale", h_damp, {}))
    for cfg, order, unph in (("chain", [0], False), ("hist", [2], False), ("fixed_parent", [2], False),
                             ("blocks", [1], True), ("block_fixed", [0], True)) + \
            ((("chain", [3], False), ("blocks", [0], True)) if tier == "thorough" else ()):
        kw = dict(config=cfg, order=order, unphased=unph)
        if cfg == "chain" and order == [3]:
            cs.append(Case(f"like_step:{cfg}:e3", h_like_step, kw, weight=200, shard_depth=5))
        else:
            cs.append(Case(f"like_step:{cfg}:{'b' if unph else 'e'}{order[0]}", h_like_step, kw,
                           weight=60))
    for cfg, k in (("chain", 0), ("chain", 1), ("blocks", 1)) + \
            ((("chain", 2), ("hist", 1)) if tier == "thorough" else ()):
        cs.append(Case(f"prior_step:{cfg}:em{k}", h_prior_step, dict(config=cfg, em_maxitt=k),
                       weight=30))
    for sk, it in (("cat3", 0), ("cat3", 1), ("internal_sample", 1), ("two_tree", 0)) + \
            ((("cat3", 2), ("bal4", 1)) if tier == "thorough" else ()):
        cs.append(Case(f"constrain:{sk}:it{it}", h_constrain, dict(skel=sk, iters=it), weight=20))
    for g, k in (("cat3", 1), ("cat3", 2)) + \
            ((("two_parents", 1), ("bal4", 1)) if tier == "thorough" else ()):
        cs.append(Case(f"timescale:{g}:k{k}", h_timescale, dict(graph=g, intervals=k), weight=30))
    for nep, nt in ((1, 2), (2, 1), (2, 2)) + (((3, 1),) if tier == "thorough" else ()):
        cs.append(Case(f"popsize:ep{nep}:t{nt}", h_popsize, dict(nep=nep, nt=nt), weight=10))
    for sk, G in (("cherry", 3), ("cat3", 2)) + ((("cat3", 3),) if tier == "thorough" else ()):
        for space in ("linear", "logarithmic"):
            for kind in ("inside_outside", "maximization"):
                cs.append(Case(f"discrete:{kind}:{sk}:G{G}:{space}", h_discrete,
                               dict(skel=sk, G=G, space=space, kind=kind), weight=40))
    return cs


def run(tier, seed, t0):
    from symx import npx
    cs = cases(tier)
    outs = common.run_cases(cs)
    return common.finish(
        "C06", tier, seed, t0, outs,
        explanation="Relational symbolic execution with ONE symbolic scale factor c > 0 shared by two "
        "runs of the real code: inputs x and the same inputs in another time unit (rates / c, ages, "
        "eps, timepoints, population sizes * c).  z3 proves for every path pair: the 14 approx.*_moments "
        "and 14 *_projection functions take the same skip decision and return means * c, variances * "
        "c^2, phase probabilities unchanged, natural parameters (alpha, beta / c) (hypergeometric "
        "Laplace approximations uninterpreted: they only ever see scale-free arguments, which is part "
        "of what is proved since a unit-dependent argument would give a different symbol); "
        "util._constrain_ages(t c, eps c) = c _constrain_ages(t, eps); mutational_timescale + "
        "piecewise_scale_point_estimate: breaks and rescaled node times * c; PopulationSizeHistory "
        "with sizes and breaks * c: coalescent times unchanged, natural times * c; the whole "
        "InsideOutsideMethod.run / MaximizationMethod.run in both probability spaces: posterior means "
        "* c, variances * c^2.",
        functions=["tsdate.approx.*_moments (14)", "tsdate.approx.*_projection (14)",
                   "tsdate.variational.ExpectationPropagation.propagate_likelihood/propagate_prior", "tsdate.variational._damp/_rescale",
                   "tsdate.util._constrain_ages", "tsdate.rescaling.mutational_timescale/"
                   "mutational_area/_fixed_changepoints/piecewise_scale_point_estimate",
                   "tsdate.demography.PopulationSizeHistory", "tsdate.core.InsideOutsideMethod.run/"
                   "MaximizationMethod.run", "tsdate.discrete.Likelihoods/BeliefPropagation"],
        bounds={"c": "every positive real", "graphs": "cherry, cat3 (rescaling, discrete), cat3/"
                "internal_sample/two_tree (constrain)", "grid": "2-3 timepoints", "epochs": "1-2 (3)",
                "constrain_iterations": "0-1 (2 thorough)"},
        stubs=["hypergeo._hyp2f1_laplace/_hyp1f1_laplace/_hyperu_laplace/_betaln, math.exp/log/lgamma "
               "uninterpreted", "scipy poisson pmf uninterpreted (keyed by its arguments)",
               "priors on the grid: the same symbolic rows in both units (they are functions of "
               "coalescent-scale times, proved unit-free by the popsize case and C16)"],
        assumptions=["exact reals: the property allows floating-point tolerance"],
        out_of_scope=["composition of the kernels into date() is by the code's own data flow: "
                      "covered piecewise; the EP message-passing loop around the projections "
                      "(propagate_likelihood / propagate_prior) is linear in the natural parameters "
                      "and is covered only through the replays"],
        validated=npx.validate(),
        expect_tags=["valid", "skip", "constrain", "timescale", "popsize", "prior-step", "damp",
                     "like-step",
                     "discrete-inside_outside",
                     "discrete-maximization"],
    )


def replay(payload):
    """Public API: date the same input in two time units (c from the model and fixed
    non-powers-of-two), all three methods."""
    import msprime
    import tsdate
    m = common.model_floats(payload["model"])
    cs = [float(m.get("c", 3.7)), 3.7, 1e-3, 123456.789, 1.3e7]
    bad = []
    ts0 = msprime.sim_ancestry(4, sequence_length=2e4, recombination_rate=1e-6, population_size=100,
                               random_seed=5)
    ts0 = msprime.sim_mutations(ts0, rate=1e-5, random_seed=6)
    mu = 1e-5
    for c in cs:
        if not (1e-6 < c < 1e10):
            continue
        for method in ("variational_gamma", "inside_outside", "maximization"):
            kw1, kw2 = {}, {}
            if method != "variational_gamma":
                tp = np.array([0, 5.0, 20, 50, 120, 300, 800, 2000])
                kw1 = dict(population_size=100, eps=1e-6,
                           priors=tsdate.build_prior_grid(ts0, population_size=100, timepoints=tp))
                kw2 = dict(population_size=100 * c, eps=1e-6 * c,
                           priors=tsdate.build_prior_grid(ts0, population_size=100 * c, timepoints=tp * c))
                kw1.pop("population_size"), kw2.pop("population_size")
            else:
                kw1 = kw2 = dict(rescaling_intervals=5)
            try:
                a = tsdate.date(ts0, method=method, mutation_rate=mu, min_branch_length=1e-3, **kw1)
                b = tsdate.date(ts0, method=method, mutation_rate=mu / c, min_branch_length=1e-3 * c, **kw2)
            except Exception as e:
                bad.append((method, c, repr(e)[:200]))
                continue
            if not np.allclose(b.nodes_time, a.nodes_time * c, rtol=1e-6, atol=0):
                bad.append((method, c, "nodes_time", float(np.max(np.abs(b.nodes_time / np.maximum(a.nodes_time * c, 1e-300) - 1)[a.nodes_time > 0]))))
            if not np.allclose(b.mutations_time, a.mutations_time * c, rtol=1e-6, atol=0, equal_nan=True):
                bad.append((method, c, "mutations_time"))
            for u in range(a.num_nodes):
                ma, mb = a.node(u).metadata, b.node(u).metadata
                if isinstance(ma, dict) and isinstance(mb, dict) and "mn" in ma:
                    if not (abs(mb["mn"] - ma["mn"] * c) <= 1e-6 * abs(ma["mn"] * c)
                            and abs(mb["vr"] - ma["vr"] * c * c) <= 1e-5 * abs(ma["vr"] * c * c)):
                        bad.append((method, c, "metadata", u, ma, mb))
                        break
    return bool(bad), str(bad[:4])
