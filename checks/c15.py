"""C15 - node span tables behind the mixture prior are exact."""
import math

import numpy as np

from checks import common
from checks.common import Case
from checks.coords import SymCoords
from symx import skeletons as SK

SKELS = ["cat3", "two_tree", "two_parents", "disjoint_node", "three_pieces", "swap_child",
         "tri", "missing_sample", "root_pieces"]


class _Tree:
    """real tskit Tree with symbolic interval / span"""

    def __init__(self, tree, sc):
        self._t, self._sc = tree, sc

    def __getattr__(self, k):
        return getattr(self._t, k)

    @property
    def interval(self):
        l, r = self._t.interval
        return (self._sc.sym_of(l), self._sc.sym_of(r))

    @property
    def span(self):
        l, r = self.interval
        return r - l


class _TS:
    def __init__(self, ts, sc):
        self._ts, self._sc = ts, sc

    def __getattr__(self, k):
        return getattr(self._ts, k)

    def trees(self, **kw):
        for t in self._ts.trees(**kw):
            yield _Tree(t, self._sc)

    def first(self, **kw):
        return _Tree(self._ts.first(**kw), self._sc)


def _direct_spans(ts, sc):
    """{node: {(T, k): symbolic span}} and node_spans from the per-tree definition."""
    from symx.dom import Q
    samples = [int(s) for s in ts.samples()]
    out, total = {}, {}
    for t in ts.trees(tracked_samples=samples):
        l, r = sc.sym_of(t.interval[0]), sc.sym_of(t.interval[1])
        T = sum(1 for s in samples if t.parent(s) != -1)
        for u in t.nodes():
            if t.num_tracked_samples(u) == 0:
                continue
            total[u] = total.get(u, Q.of(0)) + (r - l)
            if u in samples:
                continue
            k = t.num_tracked_samples(u)
            out.setdefault(u, {})
            out[u][(T, k)] = out[u].get((T, k), Q.of(0)) + (r - l)
    return out, total


def h_spans(ctx, skel):
    from symx import load
    from symx.dom import Q
    prior = load.tsdate_module("prior")
    ntc = load.tsdate_module("node_time_class")
    ts = SK.all_named()[skel]()
    with load.patched(prior, ntc):
        sc = SymCoords(ctx, ts)
        try:
            sbs = prior.SpansBySamples(_TS(ts, sc))
        except Exception as e:
            ctx.fail("no-exception", detail={"exception": repr(e)[:300]})
            return
    want, total = _direct_spans(ts, sc)
    samples = set(int(s) for s in ts.samples())
    ctx.prove("spans:nodes_to_date_are_the_non_samples_in_trees",
              set(int(u) for u in sbs.nodes_to_date) == set(want))
    for u, tab in want.items():
        got = {}
        for T, arr in sbs.get_spans(u).items():
            for k, v in zip(arr["descendant_tips"], arr["span"]):
                got[(int(T), int(k))] = v
        ctx.prove(f"spans:node[{u}]:same_(T,k)_pairs", set(got) == set(tab))
        tot = Q.of(0)
        for key, v in tab.items():
            if key in got:
                ctx.prove(f"spans:node[{u}]:span{key}", Q.of(got[key]) == v)
                tot = tot + got[key]
        ctx.prove(f"spans:node[{u}]:spans_sum_to_node_span", tot == Q.of(sbs.node_spans[u]))
        ctx.prove(f"spans:node[{u}]:node_span_is_total_presence", Q.of(sbs.node_spans[u]) == total[u])
    ctx.tag("spans")
    from symx.dom import choice
    choice("pad_")


def h_mixture(ctx, skel, distr):
    """get_mixture_prior_params / mixture_expect_and_var: span-weighted mixture moments of
    symbolic per-(T,k) coalescent priors, passed to func_approx."""
    from symx import load
    from symx.dom import sym, Q, qeq
    prior = load.tsdate_module("prior")
    ntc = load.tsdate_module("node_time_class")
    ts = SK.all_named()[skel]()
    with load.patched(prior, ntc) as npx:
        sc = SymCoords(ctx, ts)
        try:
            sbs = prior.SpansBySamples(_TS(ts, sc))
        except Exception as e:
            ctx.fail("no-exception", detail={"exception": repr(e)[:300]})
            return
        cct = prior.ConditionalCoalescentTimes(None, distr)
        Ts = sorted({int(T) for u in sbs.nodes_to_date for T in sbs.get_spans(u)})
        M, V = {}, {}
        for T in Ts:
            tab = npx.full((T + 1, 4), math.nan)
            for k in range(2, T + 1):
                M[(T, k)], V[(T, k)] = sym(f"m{T}_{k}", "pos"), sym(f"v{T}_{k}", "pos")
                tab[k, 0], tab[k, 1] = sym(f"A{T}_{k}"), sym(f"B{T}_{k}")
                tab[k, 2], tab[k, 3] = M[(T, k)], V[(T, k)]
            cct.prior_store[T] = tab
        calls = []

        def spy(mean, var):
            calls.append((mean, var))
            return sym(f"fa{len(calls)}"), sym(f"fb{len(calls)}")
        cct.func_approx = spy
        try:
            pars = cct.get_mixture_prior_params(sbs)
        except Exception as e:
            ctx.fail("no-exception:mixture", detail={"exception": repr(e)[:300]})
            return
    want, _ = _direct_spans(ts, sc)
    ci = 0
    for u in sbs.nodes_to_date:
        u = int(u)
        tab = want[u]
        if len(tab) == 1:
            (T, k), = tab.keys()
            ctx.prove(f"mixture:node[{u}]:single_component_uses_table_row",
                      qeq(pars[u, 0], cct.prior_store[T][k, 0]) and qeq(pars[u, 1], cct.prior_store[T][k, 1]))
            ctx.tag("single")
            continue
        W = sum(tab.values(), Q.of(0))
        mean = sum((w * M[key] for key, w in tab.items()), Q.of(0)) / W
        var = sum((w * (V[key] + M[key] * M[key]) for key, w in tab.items()), Q.of(0)) / W - mean * mean
        ctx.prove(f"mixture:node[{u}]:func_approx_called", ci < len(calls))
        if ci < len(calls):
            ctx.prove(f"mixture:node[{u}]:mean", Q.of(calls[ci][0]) == mean)
            ctx.prove(f"mixture:node[{u}]:var", Q.of(calls[ci][1]) == var)
            ctx.prove(f"mixture:node[{u}]:params_are_func_approx_output",
                      qeq(pars[u, 0], Q.var(f"fa{ci + 1}")) and qeq(pars[u, 1], Q.var(f"fb{ci + 1}")))
        ci += 1
        ctx.tag("mixture")
    from symx.dom import choice
    choice("pad_")


def h_mixture_cached(ctx, skel, distr):
    """get_mixture_prior_params on the skeleton's OWN coordinates (so that its cache of small
    mixtures hits exactly when it would on a real input) with symbolic per-(T,k) coalescent
    priors and func_approx an uninterpreted function of (mean, variance): every node's
    parameters are func_approx of ITS OWN span-weighted mixture."""
    from symx import load
    from symx.dom import sym, Q, qeq
    from symx.uf import uf
    prior = load.tsdate_module("prior")
    ntc = load.tsdate_module("node_time_class")
    ts = SK.all_named()[skel]()
    # span tables from the unpatched module: real float64 record arrays, so that
    # `span_arr.tobytes()` (the cache key) means what it means on a real input
    try:
        sbs = prior.SpansBySamples(ts)
    except Exception as e:
        ctx.fail("no-exception", detail={"exception": repr(e)[:300]})
        return
    with load.patched(prior, ntc) as npx:
        cct = prior.ConditionalCoalescentTimes(None, distr)
        Ts = sorted({int(T) for u in sbs.nodes_to_date for T in sbs.get_spans(u)})
        M, V = {}, {}
        for T in Ts:
            tab = npx.full((T + 1, 4), math.nan)
            for k in range(2, T + 1):
                M[(T, k)], V[(T, k)] = sym(f"m{T}_{k}", "pos"), sym(f"v{T}_{k}", "pos")
                tab[k, 0], tab[k, 1] = sym(f"A{T}_{k}"), sym(f"B{T}_{k}")
                tab[k, 2], tab[k, 3] = M[(T, k)], V[(T, k)]
            cct.prior_store[T] = tab
        cct.func_approx = lambda mean, var: (uf("approx_a", (mean, var)), uf("approx_b", (mean, var)))
        try:
            pars = cct.get_mixture_prior_params(sbs)
        except Exception as e:
            ctx.fail("no-exception:mixture", detail={"exception": repr(e)[:300]})
            return
    samples = [int(s_) for s_ in ts.samples()]
    want = {}
    for t in ts.trees(tracked_samples=samples):
        T = sum(1 for s_ in samples if t.parent(s_) != -1)
        for u in t.nodes():
            if u in samples or t.num_tracked_samples(u) == 0:
                continue
            key = (T, t.num_tracked_samples(u))
            want.setdefault(u, {})
            want[u][key] = want[u].get(key, 0.0) + t.span
    for u, tab in want.items():
        if len(tab) == 1:
            (T, k), = tab.keys()
            ctx.prove(f"cached:node[{u}]:single_component_uses_table_row",
                      qeq(pars[u, 0], cct.prior_store[T][k, 0]) and qeq(pars[u, 1], cct.prior_store[T][k, 1]))
            continue
        W = sum(tab.values())
        mean = sum((Q.of(w) * M[key] for key, w in tab.items()), Q.of(0)) / Q.of(W)
        var = sum((Q.of(w) * (V[key] + M[key] * M[key]) for key, w in tab.items()), Q.of(0)) / Q.of(W) \
            - mean * mean
        ctx.prove(f"cached:node[{u}]:parameters_of_its_own_mixture",
                  (Q.of(pars[u, 0]) == uf("approx_a", (mean, var))) & (Q.of(pars[u, 1]) == uf("approx_b", (mean, var))))
    ctx.tag("cached")
    from symx.dom import choice
    choice("pad_")


def cases(tier):
    cs = [Case(f"spans:{sk}", h_spans, dict(skel=sk)) for sk in SKELS]
    if tier == "thorough":
        cs += [Case(f"spans:{sk}", h_spans, dict(skel=sk), weight=20) for sk in SK.random_names(6)]
    for sk in ("two_tree", "two_parents", "disjoint_node", "missing_sample", "cat3"):
        for d in ("lognorm", "gamma"):
            cs.append(Case(f"mixture:{sk}:{d}", h_mixture, dict(skel=sk, distr=d)))
    for sk in ("missing_twins", "two_tree", "missing_sample", "three_pieces"):
        for d in ("lognorm", "gamma"):
            cs.append(Case(f"cached:{sk}:{d}", h_mixture_cached, dict(skel=sk, distr=d)))
    return cs


def run(tier, seed, t0):
    from symx import npx
    cs = cases(tier)
    outs = common.run_cases(cs)
    return common.finish(
        "C15", tier, seed, t0, outs,
        explanation="prior.SpansBySamples (first_pass, finalize, get_spans) is executed on real tskit "
        "skeletons through a thin proxy that replaces only each tree's interval/span by symbolic "
        "breakpoints; z3 proves for every non-sample node and every (samples in the local tree, "
        "samples below the node) pair that the recorded span equals the total symbolic length of "
        "the trees with that pair, and that the spans sum to the node's total span.  "
        "get_mixture_prior_params / mixture_expect_and_var are run on symbolic per-(T,k) prior "
        "means/variances: single-component nodes take the table row, the others pass exactly the "
        "span-weighted mixture mean and variance to func_approx.",
        functions=["tsdate.prior.SpansBySamples.__init__/first_pass/finalize/get_spans",
                   "ConditionalCoalescentTimes.get_mixture_prior_params/mixture_expect_and_var"],
        bounds={"skeletons": SKELS, "trees": "<= 5", "nodes": "<= 7"},
        stubs=["tskit Tree.interval/span -> symbolic (everything else is real tskit)",
               "per-(T,k) coalescent priors -> symbolic table"],
        assumptions=["inputs without unary nodes, one root per tree (as the property states)"],
        out_of_scope=["the unary-node second/third pass", "tskit's tree iterator"],
        validated=npx.validate(),
        expect_tags=["spans", "mixture", "single", "cached"],
    )


def replay(payload):
    """Compiled code on the skeleton's own coordinates against the per-tree definition."""
    from tsdate import prior
    kw = payload["case_kw"]
    ts = SK.all_named()[kw["skel"]]()
    sbs = prior.SpansBySamples(ts)
    samples = [int(s) for s in ts.samples()]
    want = {}
    for t in ts.trees(tracked_samples=samples):
        T = sum(1 for s in samples if t.parent(s) != -1)
        for u in t.nodes():
            if u in samples or t.num_tracked_samples(u) == 0:
                continue
            key = (T, t.num_tracked_samples(u))
            want.setdefault(u, {})
            want[u][key] = want[u].get(key, 0.0) + t.span
    bad = []
    for u, tab in want.items():
        got = {(int(T), int(k)): float(v) for T, arr in sbs.get_spans(u).items()
               for k, v in zip(arr["descendant_tips"], arr["span"])}
        if set(got) != set(tab) or any(abs(got[k] - v) > 1e-9 for k, v in tab.items()):
            bad.append((u, got, tab))
    if payload["case"].startswith(("mixture", "cached")):
        cct = prior.ConditionalCoalescentTimes(None, kw["distr"])
        for T in {T for tab in want.values() for T, _ in tab}:
            cct.add(T)
        pars = cct.get_mixture_prior_params(sbs)
        for u, tab in want.items():
            if len(tab) == 1:
                continue
            W = sum(tab.values())
            mean = sum(w * cct[T][k, 2] for (T, k), w in tab.items()) / W
            var = sum(w * (cct[T][k, 3] + cct[T][k, 2] ** 2) for (T, k), w in tab.items()) / W - mean ** 2
            a, b = cct.func_approx(mean, var)
            if not (abs(pars[u, 0] - a) <= 1e-9 * max(1, abs(a)) and abs(pars[u, 1] - b) <= 1e-9 * max(1, abs(b))):
                bad.append(("mixture", u, pars[u].tolist(), (a, b)))
    return bool(bad), str(bad[:3])
