"""C16 - discretised prior grids hold the right probability masses."""
import math
from fractions import Fraction

import numpy as np

from checks import common
from checks.common import Case
from symx import skeletons as SK


class _Dist:
    """uninterpreted distribution functions: cdf(t; params) in [0,1], cdf(0)=0, non-decreasing in
    t (constraints asserted between the points of one call), same (t, params) -> same symbol."""

    def __init__(self, ctx, name):
        self.ctx, self.name = ctx, name

    def cdf(self, t, main, scale=None, **kw):
        from symx.uf import uf
        from symx.dom import Q, is_sym
        scale = kw.get("scale", scale)
        ts = list(t) if isinstance(t, np.ndarray) else [t]
        out = []
        prev_t, prev_c = None, None
        for x in ts:
            if not is_sym(x) and float(x) == 0.0:
                c = 0.0
            else:
                c = uf(f"cdf_{self.name}", (x, main, scale), sign="nonneg")
                self.ctx.assume(c <= 1)
            if prev_c is not None and bool(Q.of(prev_t) <= Q.of(x)):
                self.ctx.assume(Q.of(prev_c) <= Q.of(c))
            prev_t, prev_c = x, c
            out.append(c)
        if isinstance(t, np.ndarray):
            a = np.empty(len(out), dtype=object)
            a[:] = out
            return a
        return out[0]


class _ScipyStub:
    def __init__(self, ctx):
        class stats:
            lognorm = _Dist(ctx, "lognorm")
            gamma = _Dist(ctx, "gamma")
        self.stats = stats
        self.special = None
        self.cluster = None


def _setup(ctx, prior, demography, ts, G, distr, nep, explicit=None):
    from symx.dom import sym, Q
    n = ts.num_nodes
    pp = np.empty((n, 4), dtype=object)
    pp[:] = math.nan
    samples = set(int(s) for s in ts.samples())
    for u in range(n):
        if u not in samples:
            pp[u, 0] = sym(f"alpha{u}") if distr == "lognorm" else sym(f"alpha{u}", "pos")
            pp[u, 1] = sym(f"beta{u}", "pos")
    N = [sym(f"N{i}", "pos") for i in range(nep)]
    breaks, acc = [], Q.of(0)
    for i in range(1, nep):
        acc = acc + sym(f"db{i}", "pos")
        breaks.append(acc)
    pop = demography.PopulationSizeHistory(N, breaks if breaks else None)
    return pp, pop


def h_fill(ctx, skel, G, distr, nep):
    """fill_priors: row[0] = 0, row[i] proportional to cdf(t_i) - cdf(t_{i-1}), max(row[1:]) = 1,
    timepoints = to_natural(coalescent grid), samples have no row."""
    from symx import load
    from symx.dom import sym, Q, Or, And
    prior = load.tsdate_module("prior")
    demography = load.tsdate_module("demography")
    ntc = load.tsdate_module("node_time_class")
    ts = SK.all_named()[skel]()
    with load.patched(prior, demography, ntc, extra={prior: {"scipy": _ScipyStub(ctx)}}) as npx:
        pp, pop = _setup(ctx, prior, demography, ts, G, distr, nep)
        tp = np.empty(G, dtype=object)
        tp[0] = 0.0
        acc = Q.of(0)
        for g in range(1, G):
            acc = acc + sym(f"dt{g}", "pos")
            tp[g] = acc
        # the last cdf value of each node is positive (the grid reaches the prior's support)
        from symx.uf import sym_sqrt, sym_exp
        d0 = getattr(prior.scipy.stats, distr)
        for u in range(ts.num_nodes):
            if u in set(int(s_) for s_ in ts.samples()):
                continue
            if distr == "lognorm":
                c0 = d0.cdf(tp, sym_sqrt(pp[u, 1]), scale=sym_exp(pp[u, 0]))
            else:
                c0 = d0.cdf(tp, pp[u, 0], scale=1 / pp[u, 1])
            ctx.assume(Q.of(c0[G - 1]) > 0)
        try:
            pri = prior.fill_priors(pp, tp, ts, pop, prior_distr=distr)
        except Exception as e:
            ctx.fail("no-exception", detail={"exception": repr(e)[:300]})
            return
        nat = pop.to_natural_timescale(tp)
    samples = set(int(s) for s in ts.samples())
    ctx.prove("fill:linear_space", pri.probability_space == "linear")
    for g in range(G):
        ctx.prove(f"fill:timepoint[{g}]=natural(coalescent_grid)", Q.of(pri.timepoints[g]) == nat[g])
    ctx.prove("fill:nonfixed_are_the_non_samples",
              set(int(u) for u in pri.nonfixed_nodes) == set(range(ts.num_nodes)) - samples)
    d = d0
    for u in pri.nonfixed_nodes:
        u = int(u)
        row = pri[u]
        if distr == "lognorm":
            main, scale = sym_sqrt(pp[u, 1]), sym_exp(pp[u, 0])
        else:
            main, scale = pp[u, 0], 1 / pp[u, 1]
        c = d.cdf(tp, main, scale=scale)
        ctx.prove(f"fill:row[{u}][0]=0", Q.of(row[0]) == 0)
        # proportional to the interval masses: row[i] * (c_j - c_{j-1}) == row[j] * (c_i - c_{i-1})
        for i in range(1, G):
            for j in range(i + 1, G):
                ctx.prove(f"fill:row[{u}]:mass_ratio[{i},{j}]",
                          Q.of(row[i]) * (Q.of(c[j]) - c[j - 1]) == Q.of(row[j]) * (Q.of(c[i]) - c[i - 1]))
            ctx.prove(f"fill:row[{u}][{i}]<=1", Q.of(row[i]) <= 1)
            ctx.prove(f"fill:row[{u}][{i}]>=0", Q.of(row[i]) >= 0)
        ctx.prove(f"fill:row[{u}]:max_is_1", Or(*[Q.of(row[i]) == 1 for i in range(1, G)]))
    for s_ in samples:
        ctx.prove(f"fill:sample[{s_}]_has_no_grid_row", int(pri.row_lookup[s_]) < 0)
    ctx.tag(distr)


def h_explicit(ctx, skel, nep):
    """make_discretised_prior with an explicit (unsorted) user grid: the returned timegrid is
    exactly the sorted user grid; invalid grids are rejected."""
    from symx import load
    from symx.dom import sym, Q
    prior = load.tsdate_module("prior")
    demography = load.tsdate_module("demography")
    ntc = load.tsdate_module("node_time_class")
    ts = SK.all_named()[skel]()
    user = np.array([0.0, 7.25, 1.5, 30.0])
    with load.patched(prior, demography, ntc, extra={prior: {"scipy": _ScipyStub(ctx)}}) as npx:
        pp, pop = _setup(ctx, prior, demography, ts, 4, "lognorm", nep)
        mp = object.__new__(prior.MixturePrior)
        mp.prior_params, mp.tree_sequence, mp.prior_distribution = pp, ts, "lognorm"
        mp.base_priors = None
        try:
            pri = mp.make_discretised_prior(pop, timepoints=user)
        except Exception as e:
            ctx.fail("no-exception", detail={"exception": repr(e)[:300]})
            return
        want = sorted(user.tolist())
        for g in range(4):
            ctx.prove(f"explicit:timepoint[{g}]_is_sorted_user_grid", Q.of(pri.timepoints[g]) == want[g])
        for bad in (np.array([0.0, 1.0, 1.0]), np.array([0.0, -1.0, 2.0]), np.array([3.0])):
            try:
                mp.make_discretised_prior(pop, timepoints=bad)
                ctx.fail("explicit:invalid_grid_rejected", detail={"grid": bad.tolist()})
            except ValueError:
                pass
            except Exception as e:
                ctx.fail("explicit:invalid_grid_rejected_with_ValueError",
                         detail={"grid": bad.tolist(), "exception": repr(e)[:100]})
        try:
            mp.make_discretised_prior(pop, timepoints=1)
            ctx.fail("explicit:fewer_than_2_points_rejected")
        except ValueError:
            pass
    ctx.tag("explicit")


def cases(tier):
    cs = []
    for sk, G in (("cat3", 3), ("cat3", 4), ("root_not_last", 3), ("cat3_samples_last", 3)) + \
            ((("bal4", 3),) if tier == "thorough" else ()):
        for distr in ("lognorm", "gamma"):
            for nep in (1, 2):
                cs.append(Case(f"fill:{sk}:G{G}:{distr}:ep{nep}", h_fill,
                               dict(skel=sk, G=G, distr=distr, nep=nep), weight=G * nep,
                               shard_depth=2 if nep == 2 else 0))
    for nep in (1, 2):
        cs.append(Case(f"explicit:cat3:ep{nep}", h_explicit, dict(skel="cat3", nep=nep),
                       shard_depth=2))
    return cs


def run(tier, seed, t0):
    from symx import npx
    cs = cases(tier)
    outs = common.run_cases(cs)
    return common.finish(
        "C16", tier, seed, t0, outs,
        explanation="prior.fill_priors and MixturePrior.make_discretised_prior (explicit grids) are "
        "executed with symbolic prior parameters per node, a symbolic coalescent grid, symbolic "
        "1-2 epoch population sizes and uninterpreted distribution functions (cdf in [0,1], "
        "cdf(0)=0, non-decreasing).  z3 proves: the timegrid is to_natural(coalescent grid) and, "
        "for an explicit user grid, exactly the sorted user grid; every non-sample row has 0 at "
        "time 0, entries proportional to the interval masses cdf(t_i)-cdf(t_{i-1}), all in [0,1] "
        "with maximum 1; samples get no row; duplicate / negative / too short grids are rejected.",
        functions=["tsdate.prior.fill_priors", "tsdate.prior.MixturePrior.make_discretised_prior",
                   "tsdate.node_time_class.NodeTimeValues.__init__/__setitem__/standardize",
                   "tsdate.demography.PopulationSizeHistory.to_natural/to_coalescent_timescale"],
        bounds={"skeletons": "cat3, root_not_last, cat3_samples_last (bal4 thorough)", "grid": "3-4 points",
                "epochs": "1-2", "distributions": "lognorm, gamma"},
        stubs=["scipy.stats.lognorm/gamma.cdf -> uninterpreted monotone functions",
               "np.sqrt / np.exp of parameters -> uninterpreted"],
        assumptions=["'the lognormal mass' is the mass of whatever monotone cdf SciPy provides"],
        out_of_scope=["create_timepoints' quantile thinning for integer timepoints (needs ppf/cdf "
                      "inverse axioms; not decided here)", "SciPy accuracy"],
        validated=npx.validate(),
        expect_tags=["lognorm", "gamma", "explicit"],
    )


def replay(payload):
    """Public API: build_prior_grid on a real input; rows vs SciPy masses; explicit grids."""
    import scipy.stats
    import tsdate
    from tsdate import prior
    bad = []
    for name in ("cat3", "root_not_last", "bal4", "cat3_samples_last"):
        ts = SK.all_named()[name]()
        for distr in ("lognorm", "gamma"):
            for tp in (np.array([0.0, 7.25, 1.5, 30.0]), 5):
                for ne in (10.0, {"population_size": [5, 20], "time_breaks": [3]}):
                    try:
                        g = tsdate.build_prior_grid(ts, population_size=ne, timepoints=tp,
                                                    prior_distribution=distr)
                    except Exception as e:      # a valid input must get a grid
                        bad.append((name, distr, "build_prior_grid raised", repr(e)[:200]))
                        continue
                    t = np.asarray(g.timepoints, dtype=float)
                    if t[0] != 0 or np.any(np.diff(t) <= 0):
                        bad.append((name, distr, "grid not increasing from 0", t.tolist()))
                    if isinstance(tp, np.ndarray) and not np.allclose(t, np.sort(tp), rtol=1e-12):
                        bad.append((name, distr, "explicit grid changed", t.tolist()))
                    mp = prior.MixturePrior(ts, prior_distribution=distr)
                    pop = tsdate.demography.PopulationSizeHistory(**ne) if isinstance(ne, dict) \
                        else tsdate.demography.PopulationSizeHistory(ne)
                    co = pop.to_coalescent_timescale(t)
                    for u in g.nonfixed_nodes:
                        a, b = mp.prior_params[u, 0], mp.prior_params[u, 1]
                        if distr == "lognorm":
                            c = scipy.stats.lognorm.cdf(co, s=np.sqrt(b), scale=np.exp(a))
                        else:
                            c = scipy.stats.gamma.cdf(co, a, scale=1 / b)
                        mass = np.concatenate([[0], np.diff(c)])
                        row = np.asarray(g[u], dtype=float)
                        if row[0] != 0 or abs(row[1:].max() - 1) > 1e-12 or \
                                not np.allclose(row * mass[1:].max(), mass, rtol=1e-6, atol=1e-300):
                            bad.append((name, distr, int(u), row.tolist(), (mass / mass[1:].max()).tolist()))
                    if set(int(x) for x in g.nonfixed_nodes) & set(int(s) for s in ts.samples()):
                        bad.append((name, "sample has a row"))
    return bool(bad), str(bad[:3])
