"""C32 - time-metadata writing follows the set_metadata policy (decision table)."""
import itertools

import numpy as np

from checks import common, mdstub
from checks.common import Case


def h_policy(ctx, set_metadata, schema, existing, nrows, var_none=False):
    """Real EstimationMethod.set_time_metadata on a recording table; mean/var symbolic."""
    from symx import load
    from symx.dom import sym, Q
    core = load.tsdate_module("core")
    self = object.__new__(core.EstimationMethod)
    self.set_metadata = {"False": False, "None": None, "True": True}[set_metadata]
    log = []
    ex = None
    if existing == "other_keys":
        ex = [{"name": f"n{i}", "mn": -1} for i in range(nrows)]
    elif existing == "empty_dicts":
        ex = [{} for _ in range(nrows)]
    table = mdstub.Table(schema, ex, log, nrows)
    default = mdstub.Schema("permissive", log, "default")
    mean = [sym(f"mn{i}") for i in range(nrows)]
    var = None if var_none else [sym(f"vr{i}", "nonneg") for i in range(nrows)]
    warned = []
    saved = core.logger.warning
    core.logger.warning = lambda *a, **k: warned.append(a)
    try:
        try:
            self.set_time_metadata(table, mean, var, default)
        except Exception as e:
            ctx.fail("no-exception", detail={"exception": repr(e)[:300]})
            return
    finally:
        core.logger.warning = saved
    rows = mdstub.written_rows(table)
    ops = [k for k, _ in log]
    # with no rows nothing is validated, so any schema "can encode"
    can_encode = schema == "permissive" or (schema is not None and nrows == 0)
    has_md = ex is not None and nrows > 0
    has_schema = schema is not None
    if self.set_metadata is False or var_none:
        ctx.prove("policy:untouched_when_off", ops == [])
        ctx.tag("off")
        return
    if can_encode:
        expect_write, expect_drop, expect_default = True, False, False
    elif not has_md and not has_schema:
        expect_write, expect_drop, expect_default = True, False, True
    elif self.set_metadata is None:
        expect_write = expect_drop = expect_default = False
    else:
        expect_write, expect_drop, expect_default = True, True, True
    ctx.prove("policy:written_iff_expected", (rows is not None) == expect_write)
    ctx.prove("policy:drop_iff_forced", ("drop_metadata" in ops) == expect_drop)
    ctx.prove("policy:default_schema_iff_needed",
              (("set_schema" in ops) and table.metadata_schema is default) == expect_default)
    if not expect_write:
        ctx.prove("policy:left_untouched", ops == [] and table.packed is None)
        ctx.prove("policy:warning_logged", len(warned) == 1)
        ctx.tag("refused")
        return
    ctx.prove("policy:no_warning", len(warned) == 0)
    ctx.prove("policy:every_row_written", len(rows) == nrows)
    for i, r in enumerate(rows or []):
        ctx.prove(f"policy:row[{i}]:mn", "mn" in r and (Q.of(r["mn"]) == mean[i]) is True)
        ctx.prove(f"policy:row[{i}]:vr", "vr" in r and (Q.of(r["vr"]) == var[i]) is True)
        if ex is not None and not expect_drop:
            keep = {k: v for k, v in ex[i].items() if k not in ("mn", "vr")}
            ctx.prove(f"policy:row[{i}]:other_fields_kept",
                      all(r.get(k) == v for k, v in keep.items()))
        if expect_drop:
            ctx.prove(f"policy:row[{i}]:only_time_fields_after_drop", set(r) == {"mn", "vr"})
    ctx.tag("written" + ("+dropped" if expect_drop else "") + ("+default" if expect_default else ""))


def cases(tier):
    cs = []
    for sm in ("False", "None", "True"):
        for schema in (None, "permissive", "restrictive", "struct_bad"):
            for existing in (None, "other_keys", "empty_dicts"):
                for nrows in ((0, 2) if tier == "quick" else (0, 1, 3)):
                    if schema is None and existing == "other_keys":
                        pass   # raw bytes without schema: rows are never decoded
                    cs.append(Case(f"policy:{sm}:{schema}:{existing}:n{nrows}", h_policy,
                                   dict(set_metadata=sm, schema=schema, existing=existing,
                                        nrows=nrows)))
    cs.append(Case("policy:None:permissive:None:n2:var_none", h_policy,
                   dict(set_metadata="None", schema="permissive", existing=None, nrows=2,
                        var_none=True)))
    cs.append(Case("policy:True:restrictive:other_keys:n2:var_none", h_policy,
                   dict(set_metadata="True", schema="restrictive", existing="other_keys",
                        nrows=2, var_none=True)))
    return cs


def run(tier, seed, t0):
    from symx import npx
    cs = cases(tier)
    outs = common.run_cases(cs)
    return common.finish(
        "C32", tier, seed, t0, outs,
        explanation="The real EstimationMethod.set_time_metadata is executed on a recording table "
        "whose schema either encodes mn/vr, rejects them (validation error) or cannot encode "
        "them (encoding error), with and without existing metadata, for set_metadata in "
        "{False, None, True} and symbolic mean/variance values.  Every combination is explored "
        "and the statement's decision table is asserted: untouched when off; written keeping "
        "other fields when the schema can encode or nothing exists; refused with one warning "
        "when None and incompatible; metadata dropped + default schema when True; every row "
        "carries exactly the caller's mn/vr terms.",
        functions=["tsdate.core.EstimationMethod.set_time_metadata"],
        bounds={"rows": "0-3", "schemas": "none | permissive | rejecting (validation) | rejecting "
                "(encoding)", "existing_metadata": "none | rows with other keys | empty dicts",
                "set_metadata": "False | None | True", "posterior_var": "present | None"},
        stubs=["tskit table + MetadataSchema replaced by checks/mdstub.py (codecs abstracted to "
               "can / cannot encode)", "core.logger.warning recorded"],
        assumptions=["tskit's validate_and_encode_row / packset_metadata / drop_metadata behave as "
                     "documented"],
        out_of_scope=["real struct/JSON codecs and byte-level packing (tskit C/Python code)"],
        validated=npx.validate(),
        expect_tags=["off", "refused", "written", "written+dropped+default", "written+default"],
        level="other",
    )


def replay(payload):
    """Public API with real tskit schemas at the failing policy cell."""
    import json
    import tskit
    import tsdate
    from symx import skeletons as SK
    kw = payload["case_kw"]
    ts = SK.cat3()
    t = ts.dump_tables()
    schema = kw["schema"]
    if schema == "permissive":
        t.nodes.metadata_schema = tskit.MetadataSchema.permissive_json()
    elif schema == "restrictive":
        t.nodes.metadata_schema = tskit.MetadataSchema(
            {"codec": "json", "type": "object", "properties": {"name": {"type": "string"}},
             "additionalProperties": False})
    elif schema == "struct_bad":
        t.nodes.metadata_schema = tskit.MetadataSchema(
            {"codec": "struct", "type": "object",
             "properties": {"name": {"type": "string", "binaryFormat": "4s"}}})
    if kw["existing"] == "other_keys" and schema is not None:
        rows = [t.nodes.metadata_schema.validate_and_encode_row({"name": "abcd"})
                for _ in range(t.nodes.num_rows)]
        t.nodes.packset_metadata(rows)
    elif kw["existing"] == "other_keys":
        t.nodes.packset_metadata([b"raw!" for _ in range(t.nodes.num_rows)])
    ts2 = t.tree_sequence()
    sm = {"False": False, "None": None, "True": True}[kw["set_metadata"]]
    out = tsdate.date(ts2, mutation_rate=1.0, set_metadata=sm)
    nm = out.tables.nodes
    before = ts2.tables.nodes
    can = schema == "permissive" or (schema is None and kw["existing"] != "other_keys")
    if sm is False:
        bad = nm.metadata.tobytes() != before.metadata.tobytes() or \
            nm.metadata_schema != before.metadata_schema
        return bool(bad), "set_metadata=False changed node metadata"
    written = False
    try:
        written = all("mn" in out.node(u).metadata and "vr" in out.node(u).metadata
                      for u in range(out.num_nodes))
    except Exception:
        written = False
    if sm is True or can:
        return (not written), f"mn/vr written={written} (expected True)"
    untouched = nm.metadata.tobytes() == before.metadata.tobytes() and \
        nm.metadata_schema == before.metadata_schema
    return (not untouched), f"set_metadata=None incompatible: untouched={untouched}"
