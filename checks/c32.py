"""C32 - time-metadata writing follows the set_metadata policy (decision table)."""
import itertools

import numpy as np

from checks import common, mdstub
from checks.common import Case


def h_policy(ctx, set_metadata, schema, existing, nrows, var_none=False):
    """Real EstimationMethod.set_time_metadata on a recording table; mean/var symbolic."""
    from symx import load
    from symx.dom import sym, Q
    core = load.tsdate_module("core")
    self = object.__new__(core.EstimationMethod)
    self.set_metadata = {"False": False, "None": None, "True": True}[set_metadata]
    log = []
    ex = None
    if existing == "other_keys":
        ex = [{"name": f"n{i}", "mn": -1} for i in range(nrows)]
    elif existing == "empty_dicts":
        ex = [{} for _ in range(nrows)]
    table = mdstub.Table(schema, ex, log, nrows)
    default = mdstub.Schema("permissive", log, "default")
    mean = [sym(f"mn{i}") for i in range(nrows)]
    var = None if var_none else [sym(f"vr{i}", "nonneg") for i in range(nrows)]
    warned = []
    saved = core.logger.warning
    core.logger.warning = lambda *a, **k: warned.append(a)
    try:
        try:
            self.set_time_metadata(table, mean, var, default)
        except Exception as e:
            ctx.fail("no-exception", detail={"exception": repr(e)[:300]})
            return
    finally:
        core.logger.warning = saved
    rows = mdstub.written_rows(table)
    ops = [k for k, _ in log]
    # with no rows nothing is validated, so any schema "can encode"
    can_encode = schema in ("permissive", "time_only") or (schema is not None and nrows == 0)
    has_md = ex is not None and nrows > 0
    has_schema = schema is not None
    if self.set_metadata is False or var_none:
        ctx.prove("policy:untouched_when_off", ops == [])
        ctx.tag("off")
        return
    if can_encode:
        expect_write, expect_drop, expect_default = True, False, False
    elif not has_md and not has_schema:
        expect_write, expect_drop, expect_default = True, False, True
    elif self.set_metadata is None:
        expect_write = expect_drop = expect_default = False
    else:
        expect_write, expect_drop, expect_default = True, True, True
    ctx.prove("policy:written_iff_expected", (rows is not None) == expect_write)
    ctx.prove("policy:drop_iff_forced", ("drop_metadata" in ops) == expect_drop)
    ctx.prove("policy:default_schema_iff_needed",
              (("set_schema" in ops) and table.metadata_schema is default) == expect_default)
    if not expect_write:
        ctx.prove("policy:left_untouched", ops == [] and table.packed is None)
        ctx.prove("policy:warning_logged", len(warned) == 1)
        ctx.tag("refused")
        return
    ctx.prove("policy:no_warning", len(warned) == 0)
    ctx.prove("policy:every_row_written", len(rows) == nrows)
    for i, r in enumerate(rows or []):
        ctx.prove(f"policy:row[{i}]:mn", "mn" in r and (Q.of(r["mn"]) == mean[i]) is True)
        ctx.prove(f"policy:row[{i}]:vr", "vr" in r and (Q.of(r["vr"]) == var[i]) is True)
        if ex is not None and not expect_drop:
            keep = {k: v for k, v in ex[i].items() if k not in ("mn", "vr")}
            ctx.prove(f"policy:row[{i}]:other_fields_kept",
                      all(r.get(k) == v for k, v in keep.items()))
        if expect_drop:
            ctx.prove(f"policy:row[{i}]:only_time_fields_after_drop", set(r) == {"mn", "vr"})
    ctx.tag("written" + ("+dropped" if expect_drop else "") + ("+default" if expect_default else ""))


def h_both_tables(ctx, set_metadata, node_schema, mut_schema, node_existing, mut_existing):
    """Through get_modified_ts: the node and the mutation table are each treated by the policy
    on their own (a refusal on one table must not affect the other)."""
    from symx import load
    from symx.dom import sym, Q
    from checks.c01 import _StubTS
    from checks import constrain
    core = load.tsdate_module("core")
    util = load.tsdate_module("util")
    ts, ep, ec, fixed = constrain.structure("cat3")
    n, nm = ts.num_nodes, ts.num_mutations
    mean = np.empty(n, dtype=object)
    var = np.empty(n, dtype=object)
    for i in range(n):
        mean[i], var[i] = sym(f"mn{i}", "nonneg"), sym(f"vr{i}", "nonneg")
    mmean = np.array([sym(f"mmn{j}") for j in range(nm)], dtype=object)
    mvar = np.array([sym(f"mvr{j}") for j in range(nm)], dtype=object)
    log = []
    self = object.__new__(core.EstimationMethod)
    stub = _StubTS(ts, log)
    self.ts = stub
    self.time_units = "generations"
    self.set_metadata = {"False": False, "None": None, "True": True}[set_metadata]
    self.min_branch_length = sym("eps", "pos")
    self.constr_iterations = 0
    self.provenance_params = None
    self.name = "variational_gamma"
    tabs = {}
    real_dump = stub.dump_tables

    def existing(kind, cnt):
        if kind == "other_keys":
            return [{"name": f"n{i}"} for i in range(cnt)]
        return None

    class TP(mdstub.Table):
        """recording metadata table that also carries the plain columns get_modified_ts uses"""

    def dump_tables():
        t = real_dump()
        for nm_, cnt, sk, ex in (("nodes", n, node_schema, node_existing),
                                 ("mutations", nm, mut_schema, mut_existing)):
            old = getattr(t, nm_)
            md = TP(sk, existing(ex, cnt), [], cnt)
            for k, v in object.__getattribute__(old, "_cols").items():
                setattr(md, k, v)
            tabs[nm_] = md
            setattr(t, nm_, md)
        return t
    stub.dump_tables = dump_tables
    res = core.Results(mean, var, mmean, mvar, None, ts.mutations_node.copy(), None)
    saved_schemas = (core.schemas.default_node_schema, core.schemas.default_mutation_schema)
    core.schemas.default_node_schema = mdstub.Schema("permissive", [], "default_node")
    core.schemas.default_mutation_schema = mdstub.Schema("permissive", [], "default_mutation")
    warned = []
    saved = core.logger.warning
    core.logger.warning = lambda *a, **k: warned.append(a)
    try:
        with load.patched(util) as npx:
            npx.fork_isclose = False
            try:
                self.get_modified_ts(res)
            except Exception as e:
                ctx.fail("no-exception", detail={"exception": repr(e)[:300]})
                return
    finally:
        core.logger.warning = saved
        core.schemas.default_node_schema, core.schemas.default_mutation_schema = saved_schemas
    for nm_, sk, ex, cnt, mv in (("nodes", node_schema, node_existing, n, (mean, var)),
                                 ("mutations", mut_schema, mut_existing, nm, (mmean, mvar))):
        md = tabs[nm_]
        rows = mdstub.written_rows(md)
        can = sk == "permissive"
        has_md = ex == "other_keys"
        if self.set_metadata is False:
            ctx.prove(f"both:{nm_}:untouched_when_off", rows is None and not md.log)
            continue
        if can or (not has_md and sk is None) or self.set_metadata is True:
            ctx.prove(f"both:{nm_}:written", rows is not None and len(rows) == cnt)
            if rows is not None and len(rows) == cnt:
                for i, r in enumerate(rows):
                    ctx.prove(f"both:{nm_}[{i}]:mn_vr", (Q.of(r.get("mn", -1)) == mv[0][i]) is True
                              and (Q.of(r.get("vr", -1)) == mv[1][i]) is True)
        else:
            ctx.prove(f"both:{nm_}:left_untouched", rows is None
                      and not [k for k, _ in md.log if k in ("drop_metadata", "set_schema")])
    ctx.tag("both")
    from symx.dom import choice
    choice("pad_")


def cases(tier):
    cs = []
    for sm in ("False", "None", "True"):
        for ns in (None, "permissive", "restrictive"):
            for ms in (None, "permissive", "restrictive"):
                for ne, me in ((None, None), ("other_keys", None), (None, "other_keys")):
                    cs.append(Case(f"both:{sm}:{ns}:{ms}:{ne}:{me}", h_both_tables,
                                   dict(set_metadata=sm, node_schema=ns, mut_schema=ms,
                                        node_existing=ne, mut_existing=me)))
    for sm in ("False", "None", "True"):
        for schema in (None, "permissive", "time_only", "restrictive", "struct_bad"):
            for existing in (None, "other_keys", "empty_dicts"):
                for nrows in ((0, 2) if tier == "quick" else (0, 1, 3)):
                    if schema is None and existing == "other_keys":
                        pass   # raw bytes without schema: rows are never decoded
                    cs.append(Case(f"policy:{sm}:{schema}:{existing}:n{nrows}", h_policy,
                                   dict(set_metadata=sm, schema=schema, existing=existing,
                                        nrows=nrows)))
    cs.append(Case("policy:None:permissive:None:n2:var_none", h_policy,
                   dict(set_metadata="None", schema="permissive", existing=None, nrows=2,
                        var_none=True)))
    cs.append(Case("policy:True:restrictive:other_keys:n2:var_none", h_policy,
                   dict(set_metadata="True", schema="restrictive", existing="other_keys",
                        nrows=2, var_none=True)))
    return cs


def run(tier, seed, t0):
    from symx import npx
    cs = cases(tier)
    outs = common.run_cases(cs)
    return common.finish(
        "C32", tier, seed, t0, outs,
        explanation="The real EstimationMethod.set_time_metadata is executed on a recording table "
        "whose schema either encodes mn/vr, rejects them (validation error) or cannot encode "
        "them (encoding error), with and without existing metadata, for set_metadata in "
        "{False, None, True} and symbolic mean/variance values.  Every combination is explored "
        "and the statement's decision table is asserted: untouched when off; written keeping "
        "other fields when the schema can encode or nothing exists; refused with one warning "
        "when None and incompatible; metadata dropped + default schema when True; every row "
        "carries exactly the caller's mn/vr terms.",
        functions=["tsdate.core.EstimationMethod.set_time_metadata", "tsdate.core.EstimationMethod.get_modified_ts"],
        bounds={"rows": "0-3", "schemas": "none | permissive | rejecting (validation) | rejecting "
                "(encoding)", "existing_metadata": "none | rows with other keys | empty dicts",
                "set_metadata": "False | None | True", "posterior_var": "present | None"},
        stubs=["tskit table + MetadataSchema replaced by checks/mdstub.py (codecs abstracted to "
               "can / cannot encode)", "core.logger.warning recorded"],
        assumptions=["tskit's validate_and_encode_row / packset_metadata / drop_metadata behave as "
                     "documented"],
        out_of_scope=["real struct/JSON codecs and byte-level packing (tskit C/Python code)"],
        validated=npx.validate(),
        expect_tags=["off", "refused", "written", "written+dropped+default", "written+default", "both"],
        level="other",
    )


def replay(payload):
    """Public API with real tskit schemas at the failing policy cell."""
    import json
    import tskit
    import tsdate
    from symx import skeletons as SK
    kw = payload["case_kw"]
    if payload["case"].startswith("both:"):
        return _replay_both(kw)
    ts = SK.cat3()
    t = ts.dump_tables()
    schema = kw["schema"]
    if schema == "permissive":
        t.nodes.metadata_schema = tskit.MetadataSchema.permissive_json()
    elif schema == "time_only":
        t.nodes.metadata_schema = tskit.MetadataSchema(
            {"codec": "json", "type": "object",
             "properties": {"mn": {"type": "number"}, "vr": {"type": "number"}}})
    elif schema == "restrictive":
        t.nodes.metadata_schema = tskit.MetadataSchema(
            {"codec": "json", "type": "object", "properties": {"name": {"type": "string"}},
             "additionalProperties": False})
    elif schema == "struct_bad":
        t.nodes.metadata_schema = tskit.MetadataSchema(
            {"codec": "struct", "type": "object",
             "properties": {"name": {"type": "string", "binaryFormat": "4s"}}})
    if kw["existing"] == "other_keys" and schema is not None:
        rows = [t.nodes.metadata_schema.validate_and_encode_row({"name": "abcd"})
                for _ in range(t.nodes.num_rows)]
        t.nodes.packset_metadata(rows)
    elif kw["existing"] == "other_keys":
        t.nodes.packset_metadata([b"raw!" for _ in range(t.nodes.num_rows)])
    ts2 = t.tree_sequence()
    sm = {"False": False, "None": None, "True": True}[kw["set_metadata"]]
    out = tsdate.date(ts2, mutation_rate=1.0, set_metadata=sm)
    nm = out.tables.nodes
    before = ts2.tables.nodes
    can = schema in ("permissive", "time_only") or (schema is None and kw["existing"] != "other_keys")
    if sm is False:
        bad = nm.metadata.tobytes() != before.metadata.tobytes() or \
            nm.metadata_schema != before.metadata_schema
        return bool(bad), "set_metadata=False changed node metadata"
    written = False
    try:
        written = all("mn" in out.node(u).metadata and "vr" in out.node(u).metadata
                      for u in range(out.num_nodes))
    except Exception:
        written = False
    if can and written and kw["existing"] == "other_keys":
        lost = [u for u in range(out.num_nodes) if out.node(u).metadata.get("name") != "abcd"]
        if lost:
            return True, f"other metadata fields lost on nodes {lost[:5]}"
    if sm is True or can:
        return (not written), f"mn/vr written={written} (expected True)"
    untouched = nm.metadata.tobytes() == before.metadata.tobytes() and \
        nm.metadata_schema == before.metadata_schema
    return (not untouched), f"set_metadata=None incompatible: untouched={untouched}"


def _replay_both(kw):
    import tskit
    import tsdate
    from symx import skeletons as SK
    ts = SK.cat3()
    t = ts.dump_tables()

    def prep(table, schema, existing, nrows):
        if schema == "permissive":
            table.metadata_schema = tskit.MetadataSchema.permissive_json()
        elif schema == "restrictive":
            table.metadata_schema = tskit.MetadataSchema(
                {"codec": "json", "type": "object", "properties": {"name": {"type": "string"}},
                 "additionalProperties": False})
        if existing == "other_keys":
            if schema is None:
                table.packset_metadata([b"raw!" for _ in range(nrows)])
            else:
                table.packset_metadata([table.metadata_schema.validate_and_encode_row({"name": "ab"})
                                        for _ in range(nrows)])
    prep(t.nodes, kw["node_schema"], kw["node_existing"], t.nodes.num_rows)
    prep(t.mutations, kw["mut_schema"], kw["mut_existing"], t.mutations.num_rows)
    ts2 = t.tree_sequence()
    sm = {"False": False, "None": None, "True": True}[kw["set_metadata"]]
    out = tsdate.date(ts2, mutation_rate=1.0, set_metadata=sm)
    bad = []
    for name, schema, existing in (("nodes", kw["node_schema"], kw["node_existing"]),
                                   ("mutations", kw["mut_schema"], kw["mut_existing"])):
        before, after = getattr(ts2.tables, name), getattr(out.tables, name)
        can = schema == "permissive" or (schema is None and existing != "other_keys")
        rows = list(out.nodes()) if name == "nodes" else list(out.mutations())
        try:
            written = all(isinstance(r.metadata, dict) and "mn" in r.metadata and "vr" in r.metadata
                          for r in rows)
        except Exception:
            written = False
        if sm is False:
            if after.metadata_schema != before.metadata_schema or written:
                bad.append((name, "touched although set_metadata=False"))
        elif sm is True or can:
            if not written:
                bad.append((name, "mn/vr not written"))
        else:
            if written or after.metadata_schema != before.metadata_schema:
                bad.append((name, "incompatible table was modified under set_metadata=None"))
    return bool(bad), str(bad)
