"""C17 - population-size time transforms are exact, mutually inverse, increasing; as_dict
round-trips; gamma_to_natural is the exact rescaled gamma for constant size."""
import itertools
import math
from fractions import Fraction

import numpy as np

from checks import common
from checks.common import Case


class _Special:
    """scipy.special for gamma_to_natural with INTEGER shapes: gamma/loggamma exact,
    gammainc(a, 0) = 0, gammainc(a, inf) = 1, interior values uninterpreted in [0,1]."""

    @staticmethod
    def loggamma(s):
        from symx.dom import LogQ, Q
        return LogQ.of_q(Q(Fraction(math.factorial(int(s) - 1))))

    @staticmethod
    def gamma(s):
        from symx.dom import Q
        return Q(Fraction(math.factorial(int(s) - 1)))

    @staticmethod
    def gammainc(a, x):
        from symx.uf import uf
        from symx.dom import is_sym

        def one(v):
            from symx.dom import Q
            if isinstance(v, Q) and v.is_const():
                v = float(v.c)
            if not is_sym(v):
                f = float(v)
                if f == 0:
                    return 0.0
                if f == math.inf:
                    return 1.0
            return uf("gammainc", (int(a), v), sign="nonneg")
        if isinstance(x, np.ndarray):
            out = np.empty(x.shape, dtype=object)
            out.ravel()[:] = [one(v) for v in x.ravel()]
            return out
        return one(x)


class _ScipyStub:
    special = _Special
    stats = None


def _history(ctx, demography, nep):
    from symx.dom import sym, Q
    N = [sym(f"N{i}", "pos") for i in range(nep)]
    breaks = []
    acc = Q(Fraction(0))
    for i in range(1, nep):
        acc = acc + sym(f"db{i}", "pos")
        breaks.append(acc)
    h = demography.PopulationSizeHistory(N, breaks if breaks else None)
    return h, N, breaks


def _integral(t, N, breaks):
    """int_0^t ds / (2 N(s)) written directly from the definition."""
    acc = 0
    prev = 0
    for k in range(len(N)):
        if k == len(N) - 1 or bool(t < breaks[k]):
            return acc + (t - prev) / (2 * N[k])
        acc = acc + (breaks[k] - prev) / (2 * N[k])
        prev = breaks[k]


def h_transforms(ctx, nep, nt, direction="fwd"):
    """fwd: to_coalescent = integral, natural(coalescent(t)) = t, fixes 0, increasing.
    bwd: coalescent(natural(c)) = c, natural >= 0, fixes 0, increasing."""
    from symx import load
    from symx.dom import sym, Q, Implies
    demography = load.tsdate_module("demography")
    with load.patched(demography):
        try:
            h, N, breaks = _history(ctx, demography, nep)
            tv = np.empty(nt + 1, dtype=object)
            tv[:nt] = [sym(f"{'t' if direction == 'fwd' else 'c'}{i}", "nonneg")
                       for i in range(nt)]
            tv[nt] = 0.0
            if direction == "fwd":
                img = h.to_coalescent_timescale(tv)
                back = h.to_natural_timescale(img)
            else:
                img = h.to_natural_timescale(tv)
                back = h.to_coalescent_timescale(img)
        except Exception as e:
            ctx.fail("no-exception", detail={"exception": repr(e)})
            return
    d = direction
    for i in range(nt):
        if d == "fwd":
            ctx.prove(f"to_coalescent[{i}]=integral", img[i] == _integral(tv[i], N, breaks))
        else:
            ctx.prove(f"to_natural[{i}]>=0", img[i] >= 0)
            # natural(c) is the t with integral(t) = c
            ctx.prove(f"to_natural[{i}]:integral_inverse", _integral(img[i], N, breaks) == tv[i])
        ctx.prove(f"{d}:inverse[{i}]", back[i] == tv[i])
    ctx.prove(f"{d}:fixes0", img[nt] == 0)
    ctx.prove(f"{d}:fixes0:back", back[nt] == 0)
    for i, j in itertools.permutations(range(nt), 2):
        ctx.prove(f"{d}:increasing[{i}<{j}]", Implies(tv[i] < tv[j], img[i] < img[j]))
    ctx.tag("transforms-" + d)


def h_as_dict(ctx, nep):
    from symx import load
    demography = load.tsdate_module("demography")
    with load.patched(demography):
        try:
            h, N, breaks = _history(ctx, demography, nep)
            d = h.as_dict()
            h2 = demography.PopulationSizeHistory(**d)
        except Exception as e:
            ctx.fail("no-exception", detail={"exception": repr(e)})
            return
    ctx.prove("as_dict:keys", set(d) == ({"population_size", "time_breaks"} if nep > 1
                                         else {"population_size"}))
    for name in ("time_breaks", "population_size", "coalescent_breaks", "coalescent_rate"):
        a, b = getattr(h, name), getattr(h2, name)
        ctx.prove(f"as_dict:{name}:len", len(a) == len(b))
        for i in range(min(len(a), len(b))):
            ctx.prove(f"as_dict:{name}[{i}]", a[i] == b[i])
    for i in range(nep):
        ctx.prove(f"stored_size[{i}]=2N", h.population_size[i] == 2 * N[i])
    ctx.tag("as_dict")


def h_gamma(ctx, nep, shape):
    """gamma_to_natural, integer shape.  One epoch: exact rescaled gamma.  Several epochs:
    mean/variance equal the piecewise integrals (incomplete gammas uninterpreted)."""
    from symx import load
    from symx.dom import sym, Q
    demography = load.tsdate_module("demography")
    rate = sym("rate", "pos")
    with load.patched(demography, extra={demography: {"scipy": _ScipyStub}}):
        try:
            h, N, breaks = _history(ctx, demography, nep)
            res = h.gamma_to_natural(shape, rate)
        except Exception as e:
            ctx.fail("no-exception", detail={"exception": repr(e)})
            return
        new_shape, new_rate = res[0], res[1]
        if nep == 1:
            ctx.prove("gamma:const:shape", new_shape == shape)
            ctx.prove("gamma:const:rate", new_rate * (2 * N[0]) == rate)
        else:
            # oracle: T = 2N_k X + (b_k - 2N_k c_k) on coalescent epoch k, X ~ Gamma(shape, rate)
            cb = list(h.coalescent_breaks) + [math.inf]
            tb = list(h.time_breaks)
            P = _Special.gammainc

            def mass(j, k):     # E[X^j ; X in epoch k]
                m = Q(Fraction(1))
                for i in range(j):
                    m = m * (shape + i) / rate
                hi = P(shape + j, rate * cb[k + 1]) if cb[k + 1] != math.inf else 1.0
                lo = P(shape + j, rate * cb[k]) if not (isinstance(cb[k], float) and cb[k] == 0) else 0.0
                return m * (hi - lo)
            mn = 0
            m2 = 0
            for k in range(nep):
                a = 2 * N[k]
                c0 = tb[k] - a * cb[k]
                mn = mn + a * mass(1, k) + c0 * mass(0, k)
                m2 = m2 + a * a * mass(2, k) + 2 * a * c0 * mass(1, k) + c0 * c0 * mass(0, k)
            va = m2 - mn * mn
            ctx.assume(va > 0)
            ctx.prove("gamma:piecewise:mean", new_shape * va == mn * mn)
            ctx.prove("gamma:piecewise:rate", new_rate * va == mn)
    ctx.tag("gamma")


def cases(tier):
    cs = []
    for nep in (1, 2, 3):
        for nt in ((1, 2) if tier == "quick" else (1, 2, 3)):
            if nep == 3 and nt == 3:
                continue
            for d in ("fwd", "bwd"):
                cs.append(Case(f"transforms:{d}:ep{nep}:nt{nt}", h_transforms,
                               dict(nep=nep, nt=nt, direction=d), weight=nep ** nt))
        cs.append(Case(f"as_dict:ep{nep}", h_as_dict, dict(nep=nep)))
    # unsorted vectors of 3 times (the transforms must be element-wise, whatever the order)
    if tier == "quick":
        for d in ("fwd", "bwd"):
            cs.append(Case(f"transforms:{d}:ep2:nt3", h_transforms,
                           dict(nep=2, nt=3, direction=d), weight=30))
    for shape in (1, 2, 3):
        cs.append(Case(f"gamma:ep1:shape{shape}", h_gamma, dict(nep=1, shape=shape)))
    for shape in ((1, 2) if tier == "quick" else (1, 2, 3)):
        cs.append(Case(f"gamma:ep2:shape{shape}", h_gamma, dict(nep=2, shape=shape), weight=5))
    if tier == "thorough":
        cs.append(Case("gamma:ep3:shape1", h_gamma, dict(nep=3, shape=1), weight=8))
    return [c for c in cs if c is not None]


def run(tier, seed, t0):
    from symx import npx
    cs = cases(tier)
    outs = common.run_cases(cs)
    return common.finish(
        "C17", tier, seed, t0, outs,
        explanation="The real PopulationSizeHistory (constructor, _change_time_measure, "
        "to_coalescent_timescale, to_natural_timescale, as_dict, gamma_to_natural) is executed "
        "with symbolic epoch sizes, breaks and time vectors (any order); np.searchsorted forks "
        "over the epoch of every time.  z3 proves on every path: to_coalescent(t) equals the "
        "integral of 1/(2N) written from the definition, both compositions are the identity, "
        "0 is fixed, both maps are strictly increasing, as_dict rebuilds identical arrays, and "
        "gamma_to_natural returns (shape, rate/2N) for a constant size / the piecewise "
        "moment-matched gamma otherwise (integer shapes; incomplete gamma uninterpreted).",
        functions=["tsdate.demography.PopulationSizeHistory.__init__", "._change_time_measure",
                   ".to_coalescent_timescale", ".to_natural_timescale", ".as_dict",
                   ".gamma_to_natural"],
        bounds={"epochs": "1-3", "time_vector_length": "1-2 (+3 for two epochs) quick, 1-3 thorough",
                "gamma_shapes": "integers 1-3", "values": "all sizes > 0, all increasing breaks, "
                "all times >= 0 in any order, all rates > 0"},
        stubs=["scipy.special.gamma/loggamma exact for integer shapes; scipy.special.gammainc "
               "uninterpreted except gammainc(a,0)=0, gammainc(a,inf)=1", "numpy via symx.npx"],
        assumptions=["exact real arithmetic"],
        out_of_scope=["non-integer gamma shapes (real powers)", "SciPy accuracy",
                      "more than 3 epochs"],
        validated=npx.validate(),
        expect_tags=["transforms-fwd", "transforms-bwd", "as_dict", "gamma"],
    )


def replay(payload):
    """Concrete re-evaluation on doubles of the same statements through the public class."""
    from tsdate.demography import PopulationSizeHistory
    import scipy.integrate
    kw = payload["case_kw"]
    m = common.model_floats(payload["model"])
    nep = kw["nep"]
    N = [max(float(m.get(f"N{i}", 1.0 + i)), 1e-9) for i in range(nep)]
    breaks, acc = [], 0.0
    for i in range(1, nep):
        acc += max(float(m.get(f"db{i}", 1.0)), 1e-9)
        breaks.append(acc)
    h = PopulationSizeHistory(N, breaks if breaks else None)
    name = payload["obligation"]
    tol = 1e-9

    def integral(t):
        a, prev = 0.0, 0.0
        for k in range(nep):
            if k == nep - 1 or t < breaks[k]:
                return a + (t - prev) / (2 * N[k])
            a += (breaks[k] - prev) / (2 * N[k])
            prev = breaks[k]

    if payload["case"].startswith("transforms"):
        nt = kw["nt"]
        t = np.array([max(float(m.get(f"t{i}", 0.5 * (i + 1))), 0.0) for i in range(nt)] + [0.0])
        c = np.array([max(float(m.get(f"c{i}", 0.5 * (i + 1))), 0.0) for i in range(nt)] + [0.0])
        co = h.to_coalescent_timescale(t)
        back = h.to_natural_timescale(co)
        nat = h.to_natural_timescale(c)
        co2 = h.to_coalescent_timescale(nat)
        bad = []
        for i in range(nt):
            if abs(co[i] - integral(t[i])) > tol * max(1, abs(co[i])):
                bad.append(("integral", i, co[i], integral(t[i])))
            if abs(back[i] - t[i]) > tol * max(1, abs(t[i])):
                bad.append(("inverse", i, back[i], t[i]))
            if abs(co2[i] - c[i]) > tol * max(1, abs(c[i])):
                bad.append(("inverse2", i, co2[i], c[i]))
            if abs(integral(nat[i]) - c[i]) > tol * max(1, abs(c[i])) or nat[i] < 0:
                bad.append(("natural-integral", i, nat[i], c[i]))
        if co[nt] != 0 or back[nt] != 0 or nat[nt] != 0 or co2[nt] != 0:
            bad.append(("fixes0", co[nt], back[nt]))
        for i, j in itertools.permutations(range(nt), 2):
            if t[i] < t[j] and not co[i] < co[j]:
                bad.append(("increasing", i, j))
            if c[i] < c[j] and not nat[i] < nat[j]:
                bad.append(("increasing-nat", i, j))
        return bool(bad), f"N={N} breaks={breaks} t={t.tolist()} c={c.tolist()}: {bad[:4]}"
    if payload["case"].startswith("as_dict"):
        h2 = PopulationSizeHistory(**h.as_dict())
        ok = all(np.array_equal(getattr(h, n), getattr(h2, n)) for n in
                 ("time_breaks", "population_size", "coalescent_breaks", "coalescent_rate"))
        ok = ok and np.allclose(h.population_size, 2 * np.array(N))
        return (not ok), f"N={N} breaks={breaks}"
    shape = kw["shape"]
    rate = max(float(m.get("rate", 1.0)), 1e-9)
    a, b = h.gamma_to_natural(shape, rate)
    import scipy.stats
    # numeric moments of to_natural(X), X ~ Gamma(shape, rate)
    f = lambda x: scipy.stats.gamma.pdf(x, shape, scale=1 / rate)
    g = lambda x: float(h.to_natural_timescale(np.array([x]))[0])
    pts = list(h.coalescent_breaks[1:])
    mn = scipy.integrate.quad(lambda x: g(x) * f(x), 0, np.inf, points=pts or None, limit=400)[0] \
        if not pts else sum(scipy.integrate.quad(lambda x: g(x) * f(x), lo, hi, limit=400)[0]
                            for lo, hi in zip([0.0] + pts, pts + [np.inf]))
    m2 = sum(scipy.integrate.quad(lambda x: g(x) ** 2 * f(x), lo, hi, limit=400)[0]
             for lo, hi in zip([0.0] + pts, pts + [np.inf]))
    va = m2 - mn ** 2
    bad = abs(a / b - mn) > 1e-6 * mn or abs(a / b ** 2 - va) > 1e-5 * va
    return bool(bad), f"N={N} breaks={breaks} shape={shape} rate={rate}: got mean {a/b} var {a/b**2}, want {mn} {va}"
