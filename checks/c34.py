"""C34 - the command-line interface is faithful to the Python API."""
import argparse

import numpy as np

from checks import common
from checks.common import Case

API_NAME = {"epsilon": "eps"}          # parser dest -> API keyword (identity otherwise)
IGNORED = {"tree_sequence", "output", "verbosity", "runner", "subcommand", "help",
           "deprecated_population_size"}
TRUE_SPELLINGS = ["True", "true", "1", "yes"]
FALSE_SPELLINGS = ["False", "false", "0", "no"]


class Sent:
    """an opaque option value: the API must receive this very object"""

    def __init__(self, name):
        self.name = name

    def __repr__(self):
        return f"<{self.name}>"

    # the cli compares some values with None / 0 only
    def __gt__(self, o):
        return False


class Zero(float):
    """an explicit zero given on the command line (falsy, but still a given value)"""

    def __new__(cls, name):
        o = float.__new__(cls, 0.0)
        o.name = name
        return o

    def __repr__(self):
        return f"<{self.name}=0>"


def _subparser(cli, which):
    p = cli.tsdate_cli_parser()
    for a in p._actions:
        if isinstance(a, argparse._SubParsersAction):
            return a.choices[which]
    raise RuntimeError("no subparsers")


def _pick(n, name):
    from symx.dom import choice
    i = 0
    while i < n - 1 and choice(f"{name}_{i}_"):
        i += 1
    return i


def h_flow(ctx, sub, method=None, focus=None, all_present=False):
    """run_date / run_preprocess with stubbed load / API / dump and an arbitrary subset of
    options present (decided by the solver)."""
    from symx import load
    from symx.dom import choice
    cli = load.tsdate_module("cli")
    sp = _subparser(cli, sub)
    ns = argparse.Namespace()
    present = {}
    for a in sp._actions:
        if a.dest in ("help",):
            continue
        if a.dest in ("tree_sequence", "output"):
            setattr(ns, a.dest, Sent(a.dest))
            continue
        if a.dest == "verbosity":
            setattr(ns, a.dest, 0)
            continue
        if a.dest == "method":
            ns.method = method
            continue
        if all_present and a.dest != "deprecated_population_size":
            vg = method == "variational_gamma"
            irrelevant = {"population_size", "num_threads", "probability_space"} if vg else \
                {"rescaling_intervals", "max_iterations"}
            if sub == "date" and a.dest in irrelevant:
                setattr(ns, a.dest, a.default)
                continue
            given = True
        else:
            given = (focus is None or a.dest in focus) and choice(f"given_{a.dest}_")
        if given:
            numeric = a.type in (int, float)
            v = Zero(a.dest) if (numeric and choice(f"zero_{a.dest}_")) else Sent(a.dest)
            present[a.dest] = v
            setattr(ns, a.dest, v)
        else:
            setattr(ns, a.dest, a.default)
    log = []

    class Out:
        def dump(self, path):
            log.append(("dump", path))

    saved = (cli.tskit.load, cli.tsdate.date, cli.tsdate.preprocess_ts)
    loaded = Sent("loaded_ts")
    cli.tskit.load = lambda p: (log.append(("load", p)), loaded)[1]

    def api(name):
        def f(ts, **kw):
            log.append((name, ts, kw))
            return Out()
        return f
    cli.tsdate.date = api("date")
    cli.tsdate.preprocess_ts = api("preprocess_ts")
    exited = None
    try:
        try:
            (cli.run_date if sub == "date" else cli.run_preprocess)(ns)
        except SystemExit as e:
            exited = e
        except Exception as e:
            ctx.fail("no-exception", detail={"exception": repr(e)[:300]})
            return
    finally:
        cli.tskit.load, cli.tsdate.date, cli.tsdate.preprocess_ts = saved
    calls = [x for x in log if x[0] in ("date", "preprocess_ts")]
    dumps = [x for x in log if x[0] == "dump"]
    if sub == "date":
        vg = method == "variational_gamma"
        irrelevant = {"population_size", "num_threads", "probability_space"} if vg else \
            {"rescaling_intervals", "max_iterations"}
        invalid = bool(set(present) & (irrelevant | {"deprecated_population_size"}))
    else:
        invalid = False
    if invalid:
        ctx.prove("cli:invalid_combination_exits_with_error", exited is not None
                  and exited.code not in (0, None))
        ctx.prove("cli:invalid_combination_writes_nothing", not dumps and not calls)
        ctx.tag("invalid")
        return
    ctx.prove("cli:valid_combination_does_not_exit", exited is None)
    ctx.prove("cli:api_called_once_on_loaded_ts", len(calls) == 1 and calls[0][1] is loaded)
    ctx.prove("cli:output_written_once_to_output_path",
              len(dumps) == 1 and dumps[0][1] is ns.output)
    if len(calls) != 1:
        return
    kw = calls[0][2]
    ctx.prove("cli:calls_the_right_function", calls[0][0] == ("date" if sub == "date"
                                                              else "preprocess_ts"))
    for dest, v in present.items():
        if dest in IGNORED:
            continue
        if sub == "date" and dest == "epsilon" and method == "variational_gamma":
            continue      # eps does not exist for variational_gamma (min_branch_length does)
        ctx.prove(f"cli:option[{dest}]_reaches_api", kw.get(API_NAME.get(dest, dest)) is v)
    if sub == "date":
        ctx.prove("cli:method_passed", kw.get("method") == method)
    ctx.tag("valid")


def h_bool_option(ctx, dest):
    """The parser's own conversion of a boolean option: the literal spelling of a Boolean
    must yield that Boolean (in particular options can be switched off)."""
    from symx import load
    from symx.dom import choice
    cli = load.tsdate_module("cli")
    sp = _subparser(cli, "preprocess")
    act = [a for a in sp._actions if a.dest == dest][0]
    b = choice("value_")
    i = _pick(4, "spelling")
    text = (TRUE_SPELLINGS if b else FALSE_SPELLINGS)[i]
    conv = act.type if act.type is not None else (lambda s: s)
    try:
        got = conv(text)
    except (argparse.ArgumentTypeError, ValueError):
        if i == 0:      # the canonical Python spelling must be accepted
            ctx.fail(f"cli:bool[{dest}]:canonical_literal_accepted", detail={"text": text})
        ctx.tag("rejected-spelling")
        return
    ctx.prove(f"cli:bool[{dest}]:'{text}'_means_{b}", got is b or got == b and isinstance(got, bool))
    ctx.tag("true" if b else "false")


DATE_DESTS = ["deprecated_population_size", "mutation_rate", "recombination_rate", "epsilon",
              "min_branch_length", "progress", "rescaling_intervals", "max_iterations",
              "population_size", "num_threads", "probability_space"]


def cases(tier):
    import itertools
    cs = []
    for m in ("variational_gamma", "inside_outside", "maximization"):
        cs.append(Case(f"flow:date:{m}:all", h_flow, dict(sub="date", method=m, all_present=True)))
        for d in DATE_DESTS:
            cs.append(Case(f"flow:date:{m}:{d}", h_flow, dict(sub="date", method=m, focus=[d])))
        pairs = list(itertools.combinations(DATE_DESTS, 2))
        if tier == "quick":
            pairs = [p for p in pairs if {"population_size", "max_iterations", "rescaling_intervals",
                                          "num_threads", "deprecated_population_size"} & set(p)]
        for a, b in pairs:
            cs.append(Case(f"flow:date:{m}:{a}+{b}", h_flow,
                           dict(sub="date", method=m, focus=[a, b])))
    cs.append(Case("flow:preprocess", h_flow, dict(sub="preprocess")))
    for d in ("erase_flanks", "split_disjoint"):
        cs.append(Case(f"bool:{d}", h_bool_option, dict(dest=d)))
    return cs


def run(tier, seed, t0):
    from symx import npx
    cs = cases(tier)
    outs = common.run_cases(cs)
    return common.finish(
        "C34", tier, seed, t0, outs,
        explanation="cli.run_date / cli.run_preprocess are executed with tskit.load, tsdate.date, "
        "tsdate.preprocess_ts and dump replaced by recorders and an argparse.Namespace in which "
        "every option the real sub-parser defines is either absent (its default) or an opaque "
        "sentinel; which options are present is decided by the solver (every subset is explored). "
        "Obligations: a present option reaches the API call under the API's name as the very same "
        "object; documented invalid combinations exit with an error before anything is loaded "
        "into the API or written; valid ones call the API once and dump once to the output path. "
        "The parser's own conversion of the two boolean options is executed on the spellings of "
        "True/False chosen by the solver.",
        functions=["tsdate.cli.tsdate_cli_parser", "tsdate.cli.run_date", "tsdate.cli.run_preprocess"],
        bounds={"options": "every dest of the two sub-parsers: each alone, every pair (pairs involving a method-irrelevant option in quick), all relevant ones together; each numeric option also as an explicit 0",
                "methods": "all three", "boolean spellings": TRUE_SPELLINGS + FALSE_SPELLINGS},
        stubs=["tskit.load, tsdate.date, tsdate.preprocess_ts, TreeSequence.dump -> recorders"],
        assumptions=["equality of the written file with the API result follows from equal keyword "
                     "arguments plus determinism (C09, not decided by this technique)"],
        out_of_scope=["argparse's own tokenisation", "file contents"],
        validated=npx.validate(),
        expect_tags=["valid", "invalid", "true", "false"],
    )


VALUES = {"mutation_rate": ["1e-3"], "recombination_rate": ["1e-8"], "epsilon": ["1e-6", "0"],
          "min_branch_length": ["1e-4", "0"], "rescaling_intervals": ["3", "0"],
          "max_iterations": ["4", "0"], "population_size": ["100"], "num_threads": ["1", "0"],
          "probability_space": ["linear"], "progress": [None]}


def _replay_date(payload, cli, inp, out):
    """The real tsdate_main (real argparse + run_date) on real command lines for the options of
    the counterexample, each also as an explicit 0; tsdate.date is replaced by a recorder and the
    keyword arguments it receives are compared with what the command line said."""
    kw = payload["case_kw"]
    method = kw["method"]
    sp = _subparser(cli, "date")
    flag = {a.dest: a.option_strings[-1] for a in sp._actions if a.option_strings}
    typ = {a.dest: a.type for a in sp._actions}
    vg = method == "variational_gamma"
    irrelevant = {"population_size", "num_threads", "probability_space"} if vg else \
        {"rescaling_intervals", "max_iterations"}
    focus = kw.get("focus") or [d for d in DATE_DESTS if d not in irrelevant
                                and d != "deprecated_population_size"]
    bad = []
    for dest in focus:
        if dest in irrelevant or dest not in VALUES or dest == "mutation_rate":
            continue
        if dest == "epsilon" and vg:
            continue
        for text in VALUES[dest]:
            argv = ["date", inp, out, "--method", method, "--mutation_rate", "1e-3"]
            if not vg:
                argv += [flag["population_size"], "100"] if dest != "population_size" else []
            argv += [flag[dest]] + ([text] if text is not None else [])
            rec = []

            class Out:
                def dump(self, path):
                    pass
            saved = cli.tsdate.date
            cli.tsdate.date = lambda ts, **k: (rec.append(k), Out())[1]
            try:
                try:
                    cli.tsdate_main(argv)
                except SystemExit as e:
                    bad.append((dest, text, "cli exited", str(e.code)[:60]))
                    continue
            finally:
                cli.tsdate.date = saved
            want = True if text is None else (typ[dest] or str)(text)
            got = rec[0].get(API_NAME.get(dest, dest), "<absent>") if rec else "<no call>"
            if not (got == want and type(got) is type(want)):
                bad.append((dest, text, "api received", repr(got)))
    return bool(bad), str(bad[:4])


def replay(payload):
    """Through the real command line entry point on a temporary file."""
    import os
    import tempfile
    import tskit
    import tsdate
    from tsdate import cli
    from symx import skeletons as SK
    case = payload["case"]
    ts = SK.disjoint_node()
    d = tempfile.mkdtemp(dir=os.path.join(common.VERIF, "work"))
    try:
        inp, out = os.path.join(d, "in.trees"), os.path.join(d, "out.trees")
        ts.dump(inp)
        if case.startswith("bool:") or case == "flow:preprocess":
            bad = []
            for flag, kw in (("--erase-flanks", "erase_flanks"), ("--split-disjoint", "split_disjoint")):
                for text, val in (("False", False), ("True", True)):
                    try:
                        cli.tsdate_main(["preprocess", inp, out, flag, text, "--minimum_gap", "2"])
                    except SystemExit as e:
                        bad.append((flag, text, "exit", str(e)[:80]))
                        continue
                    got = tskit.load(out)
                    want = tsdate.preprocess_ts(ts, minimum_gap=2.0, **{kw: val})
                    a, b = got.dump_tables(), want.dump_tables()
                    a.provenances.clear()
                    b.provenances.clear()
                    if not a.equals(b):
                        bad.append((flag, text, "output differs from preprocess_ts(%s=%s)" % (kw, val)))
            return bool(bad), str(bad)
        return _replay_date(payload, cli, inp, out)
    finally:
        import shutil
        shutil.rmtree(d, ignore_errors=True)
