"""Symbolic genome coordinates over a concrete tree-sequence skeleton.

Every distinct edge endpoint / sequence length of the skeleton becomes a symbol with the same
order (0 stays 0), every site position a symbol strictly between the two neighbouring distinct
coordinates of the skeleton, same-interval sites keeping their relative order.  The index
arrays of the skeleton (insertion/removal order) stay valid because they depend only on the
order and the ties of the coordinates (and on node times / ids, which are concrete)."""
from fractions import Fraction

import numpy as np


class SymCoords:
    def __init__(self, ctx, ts, scale=None, prefix="x", name_by_position=False):
        from symx.dom import sym, Q
        self.ts = ts
        pts = sorted(set(ts.edges_left) | set(ts.edges_right) | {0.0, ts.sequence_length})
        self.points = pts
        self.map = {}
        acc = Q(Fraction(0))
        for i, p in enumerate(pts):
            if p == 0:
                self.map[p] = 0.0
                continue
            acc = acc + sym(f"{prefix}gap{i}", "pos")
            self.map[p] = acc
        self.L = self.map[ts.sequence_length]
        self.left = self._arr(ts.edges_left)
        self.right = self._arr(ts.edges_right)
        # sites: strictly inside their skeleton interval, order preserved
        pos = ts.sites_position
        spos = np.empty(len(pos), dtype=object)
        order = np.argsort(pos, kind="stable")
        prev_val, prev_sym = None, None
        for s in order:
            p = pos[s]
            lo = max(q for q in pts if q <= p)
            hi = min(q for q in pts if q > p)
            if p == lo and p in self.map:
                v = self.map[p]            # a site exactly on a breakpoint stays on it
            else:
                v = sym(f"{prefix}site@{p}" if name_by_position else f"{prefix}site{s}", "nonneg")
                ctx.assume(v > self.map[lo])
                ctx.assume(v < self.map[hi])
                if prev_val is not None and prev_val >= lo and prev_sym is not None:
                    if prev_val < p:
                        ctx.assume(v > prev_sym)
            spos[s] = v
            prev_val, prev_sym = p, v
        self.sites = spos
        self.mut_pos = spos[ts.mutations_site] if ts.num_mutations else np.empty(0, dtype=object)
        if scale is not None:
            self.left = self.left * scale
            self.right = self.right * scale
            self.mut_pos = self.mut_pos * scale
            self.sites = self.sites * scale
            self.L = self.L * scale
            self.map = {k: (v * scale) for k, v in self.map.items()}

    def _arr(self, a):
        out = np.empty(len(a), dtype=object)
        out[:] = [self.map[float(v)] for v in a]
        return out

    def sym_of(self, p):
        return self.map[float(p)]

    def tree_intervals(self):
        """[(left_sym, right_sym, tskit tree)] for every tree of the skeleton."""
        out = []
        for t in self.ts.trees():
            out.append((self.map[t.interval[0]], self.map[t.interval[1]], t.copy()))
        return out


class _SymEdge:
    def __init__(self, e, sc):
        self._e, self._sc = e, sc

    def __getattr__(self, k):
        return getattr(self._e, k)

    @property
    def left(self):
        return self._sc.sym_of(self._e.left)

    @property
    def right(self):
        return self._sc.sym_of(self._e.right)

    @property
    def span(self):
        return self.right - self.left


class _SymTree:
    def __init__(self, t, sc):
        self._t, self._sc = t, sc

    def __getattr__(self, k):
        return getattr(self._t, k)

    @property
    def interval(self):
        l, r = self._t.interval
        return (self._sc.sym_of(l), self._sc.sym_of(r))

    @property
    def span(self):
        l, r = self.interval
        return r - l


class _SymSite:
    def __init__(self, s, sc):
        self._s, self._sc = s, sc

    def __getattr__(self, k):
        return getattr(self._s, k)

    @property
    def position(self):
        return self._sc.sites[self._s.id]


class SymTS:
    """A real tskit tree sequence whose genome coordinates (edge endpoints, site positions,
    sequence length, tree intervals) are replaced by the symbols of a SymCoords; everything
    else is forwarded to the real object."""

    def __init__(self, ts, sc):
        self._ts, self._sc = ts, sc

    def __getattr__(self, k):
        return getattr(self._ts, k)

    @property
    def edges_left(self):
        return self._sc.left

    @property
    def edges_right(self):
        return self._sc.right

    @property
    def sites_position(self):
        return self._sc.sites

    @property
    def sequence_length(self):
        return self._sc.L

    def get_sequence_length(self):
        return self._sc.L

    def edges(self):
        for e in self._ts.edges():
            yield _SymEdge(e, self._sc)

    def edge(self, i):
        return _SymEdge(self._ts.edge(i), self._sc)

    def trees(self, **kw):
        for t in self._ts.trees(**kw):
            yield _SymTree(t, self._sc)

    def first(self, **kw):
        return _SymTree(self._ts.first(**kw), self._sc)

    def sites(self):
        for s in self._ts.sites():
            yield _SymSite(s, self._sc)

    def site(self, i):
        return _SymSite(self._ts.site(i), self._sc)

    def breakpoints(self, as_array=False):
        pts = [self._sc.sym_of(p) for p in self._ts.breakpoints()]
        if as_array:
            out = np.empty(len(pts), dtype=object)
            out[:] = pts
            return out
        return iter(pts)
