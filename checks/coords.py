"""Symbolic genome coordinates over a concrete tree-sequence skeleton.

Every distinct edge endpoint / sequence length of the skeleton becomes a symbol with the same
order (0 stays 0), every site position a symbol strictly between the two neighbouring distinct
coordinates of the skeleton, same-interval sites keeping their relative order.  The index
arrays of the skeleton (insertion/removal order) stay valid because they depend only on the
order and the ties of the coordinates (and on node times / ids, which are concrete)."""
from fractions import Fraction

import numpy as np


class SymCoords:
    def __init__(self, ctx, ts, scale=None, prefix="x"):
        from symx.dom import sym, Q
        self.ts = ts
        pts = sorted(set(ts.edges_left) | set(ts.edges_right) | {0.0, ts.sequence_length})
        self.points = pts
        self.map = {}
        acc = Q(Fraction(0))
        for i, p in enumerate(pts):
            if p == 0:
                self.map[p] = 0.0
                continue
            acc = acc + sym(f"{prefix}gap{i}", "pos")
            self.map[p] = acc
        self.L = self.map[ts.sequence_length]
        self.left = self._arr(ts.edges_left)
        self.right = self._arr(ts.edges_right)
        # sites: strictly inside their skeleton interval, order preserved
        pos = ts.sites_position
        spos = np.empty(len(pos), dtype=object)
        order = np.argsort(pos, kind="stable")
        prev_val, prev_sym = None, None
        for s in order:
            p = pos[s]
            lo = max(q for q in pts if q <= p)
            hi = min(q for q in pts if q > p)
            if p == lo and p in self.map:
                v = self.map[p]            # a site exactly on a breakpoint stays on it
            else:
                v = sym(f"{prefix}site{s}", "nonneg")
                ctx.assume(v > self.map[lo])
                ctx.assume(v < self.map[hi])
                if prev_val is not None and prev_val >= lo and prev_sym is not None:
                    if prev_val < p:
                        ctx.assume(v > prev_sym)
            spos[s] = v
            prev_val, prev_sym = p, v
        self.sites = spos
        self.mut_pos = spos[ts.mutations_site] if ts.num_mutations else np.empty(0, dtype=object)
        if scale is not None:
            self.left = self.left * scale
            self.right = self.right * scale
            self.mut_pos = self.mut_pos * scale
            self.L = self.L * scale

    def _arr(self, a):
        out = np.empty(len(a), dtype=object)
        out[:] = [self.map[float(v)] for v in a]
        return out

    def sym_of(self, p):
        return self.map[float(p)]

    def tree_intervals(self):
        """[(left_sym, right_sym, tskit tree)] for every tree of the skeleton."""
        out = []
        for t in self.ts.trees():
            out.append((self.map[t.interval[0]], self.map[t.interval[1]], t.copy()))
        return out
