"""C05 - variational posteriors are proper, precision-capped gamma distributions."""
import math

import numpy as np

from checks import common, ep_cases, ep_h
from checks.common import Case

NODE_WRAPPERS = {   # wrapper -> (moments function, arg kinds, number of parameter outputs)
    "gamma_projection": ("moments", "pp", 2),
    "leafward_projection": ("leafward_moments", "tp", 1),
    "rootward_projection": ("rootward_moments", "tp", 1),
    "unphased_projection": ("unphased_moments", "pp", 2),
    "twin_projection": ("twin_moments", "p", 1),
    "sideways_projection": ("sideways_moments", "tp", 1),
}
MUT_WRAPPERS = {
    "mutation_gamma_projection": ("mutation_moments", "pp", False),
    "mutation_leafward_projection": ("mutation_leafward_moments", "tp", False),
    "mutation_rootward_projection": ("mutation_rootward_moments", "tp", False),
    "mutation_edge_projection": ("mutation_edge_moments", "tt", False),
    "mutation_unphased_projection": ("mutation_unphased_moments", "pp", True),
    "mutation_twin_projection": ("mutation_twin_moments", "p", True),
    "mutation_sideways_projection": ("mutation_sideways_moments", "tp", True),
    "mutation_block_projection": ("mutation_block_moments", "tt", True),
}


def _args(kinds):
    from symx.dom import sym
    out = []
    for i, k in enumerate(kinds):
        if k == "t":
            out.append(sym(f"t{i}", "pos"))
        else:
            a = np.empty(2, dtype=object)
            a[0], a[1] = sym(f"a{i}"), sym(f"b{i}")
            out.append(a)
    lik = np.empty(2, dtype=object)
    lik[0], lik[1] = sym("y", "nonneg"), sym("mu", "pos")
    return out, lik


def h_wrapper(ctx, name):
    """Skip-or-valid: every projection wrapper returns either the documented skip value or
    natural parameters of a proper gamma whose mean/variance are the moments it was given."""
    from symx.dom import Q, is_sym
    node = name in NODE_WRAPPERS
    mom, kinds, extra = (NODE_WRAPPERS if node else MUT_WRAPPERS)[name]
    calls = []
    with ep_h.patched_ep(stub_moments=[mom], calls=calls) as (var, approx, npx):
        args, lik = _args(kinds)
        orig = [a.copy() if isinstance(a, np.ndarray) else a for a in args]
        try:
            if kinds == "tt":
                res = getattr(approx, name)(*args)
            else:
                res = getattr(approx, name)(*args, lik)
        except approx.KLMinimizationFailedError as e:
            ctx.fail("wrapper:no_KL_error_after_valid_moments", detail={"exception": repr(e)})
            return
        except Exception as e:
            ctx.fail("no-exception", detail={"exception": repr(e)[:300]})
            return
    head, outs = res[0], res[1:]
    skipped = isinstance(head, float) and head != head
    if skipped:
        ctx.tag("skip")
        if node:
            pars = [a for a, k in zip(orig, kinds) if k == "p"]
            for o, p in zip(outs, pars):
                for k in range(2):
                    ctx.prove(f"{name}:skip_returns_input[{k}]", Q.of(o[k]) == p[k])
        else:
            ctx.prove(f"{name}:skip_returns_nan",
                      all(isinstance(v, float) and v != v for v in outs[0]))
        return
    ctx.tag("valid")
    for j, o in enumerate(outs):
        ctx.prove(f"{name}:alpha[{j}]>-1", o[0] > -1)
        ctx.prove(f"{name}:beta[{j}]>0", o[1] > 0)
        mean = (o[0] + 1) / o[1]
        ctx.prove(f"{name}:mean[{j}]>0", mean > 0)
        ctx.prove(f"{name}:var[{j}]>0", mean / o[1] > 0)
    if not node and extra:
        ctx.prove(f"{name}:phase_in_[0,1]", (head >= 0) & (head <= 1) if is_sym(head)
                  else 0 <= head <= 1)
    if not node and not extra:
        ctx.prove(f"{name}:phase_is_1", Q.of(head) == 1)


def h_infer_tail(ctx, nmut=3):
    """The real ExpectationPropagation.infer with iterate / propagate_mutations / rescale
    replaced ON THE INSTANCE: phases after the flip are NaN or in [0.5, 1]; the placement
    follows the flip; rescale receives the caller's max_shape and interval settings."""
    from symx.dom import sym, choice, Q
    with ep_h.patched_ep() as (var, approx, npx):
        obj = object.__new__(var.ExpectationPropagation)
        n_blocks = 2
        obj.mutation_blocks = np.array([0, 1, -1][:nmut] + [-1] * max(0, nmut - 3),
                                       dtype=np.int32)
        obj.mutation_order = np.arange(nmut, dtype=np.int32)
        obj.mutation_posterior = npx.full((nmut, 2), math.nan)
        obj.mutation_phase = npx.ones(nmut)
        obj.mutation_edges = np.array([0, 2, 4][:nmut], dtype=np.int32)
        obj.mutation_nodes = np.array([0, 2, 4][:nmut], dtype=np.int32)
        obj.block_edges = np.array([[0, 1], [2, 3]], dtype=np.int32)
        obj.block_nodes = np.array([[5, 6], [5, 7]], dtype=np.int32)
        obj.block_likelihoods = npx.zeros((2, 2))
        obj.edge_children = np.array([0, 1, 2, 3, 4], dtype=np.int32)
        obj.edge_parents = np.array([5, 5, 6, 7, 6], dtype=np.int32)
        obj.edge_likelihoods = npx.zeros((5, 2))
        obj.edge_logconst = npx.zeros(5)
        obj.node_constraints = npx.zeros((8, 2))
        obj.node_posterior = npx.zeros((8, 2))
        obj.factors = None
        log = []
        obj.iterate = lambda **kw: log.append(("iterate", kw))
        phases = {}

        def prop_mut(order, post, phase, *a):
            log.append(("propagate_mutations", tuple(int(x) for x in order), a[-1]))
            if a[-1]:    # unphased pass writes symbolic phases in [0,1] or NaN
                for m in order:
                    if choice(f"nan_phase{m}_"):
                        phase[m] = math.nan
                    else:
                        p = sym(f"phase{m}", "nonneg")
                        ctx.assume(p <= 1)
                        phase[m] = p
                    phases[int(m)] = phase[m]
        obj.propagate_mutations = prop_mut
        obj.rescale = lambda **kw: log.append(("rescale", kw))
        ms, ri, rit = sym("max_shape"), 7, 3
        try:
            obj.infer(ep_iterations=2, max_shape=ms, rescale_intervals=ri,
                      rescale_iterations=rit, regularise=True, rescale_segsites=False)
        except Exception as e:
            ctx.fail("no-exception", detail={"exception": repr(e)[:300]})
            return
        its = [x for x in log if x[0] == "iterate"]
        ctx.prove("infer:iterate_called_ep_iterations_times", len(its) == 2)
        ctx.prove("infer:iterate_gets_max_shape", all(x[1].get("max_shape") is ms for x in its))
        rs = [x for x in log if x[0] == "rescale"]
        ctx.prove("infer:rescale_called_once", len(rs) == 1)
        if rs:
            kw = rs[0][1]
            ctx.prove("infer:rescale_gets_max_shape", kw.get("max_shape") is ms)
            ctx.prove("infer:rescale_gets_intervals", kw.get("rescale_intervals") == ri
                      and kw.get("rescale_iterations") == rit
                      and kw.get("rescale_segsites") is False)
        for m in range(nmut):
            ph = obj.mutation_phase[m]
            b = int(obj.mutation_blocks[m])
            if b < 0:
                ctx.prove(f"infer:phased_mutation[{m}]:untouched",
                          Q.of(ph) == 1 and int(obj.mutation_edges[m]) == [0, 2, 4][m])
                continue
            if isinstance(ph, float) and ph != ph:
                ctx.tag("nan-phase")
                continue
            ctx.prove(f"infer:phase[{m}]>=0.5", ph >= Q.of(1) / 2)
            ctx.prove(f"infer:phase[{m}]<=1", ph <= 1)
            orig = phases[m]
            flipped = bool(orig < Q.of(1) / 2)
            want_edge = int(obj.block_edges[b, 1 if flipped else 0])
            ctx.prove(f"infer:placement[{m}]_follows_phase",
                      int(obj.mutation_edges[m]) == want_edge
                      and int(obj.mutation_nodes[m]) == int(obj.edge_children[want_edge]))
            ctx.tag("flipped" if flipped else "kept")


def _ginv(a, q):
    """uninterpreted inverse incomplete gamma: positive, same (a, q) -> same symbol."""
    from symx.uf import uf
    return uf("gammainc_inv", (a, q), sign="pos")


def h_iqr(ctx, kind):
    """approximate_gamma_iqr: every return has 0 < shape <= max_shape and rate > 0; on the
    capped return the lower quantile is matched (rate = G(max_shape, q1) / x1)."""
    from symx import load
    from symx.dom import sym, Q
    from symx.uf import uf
    hypergeo = load.tsdate_module("hypergeo")
    with ep_h.patched_ep() as (var, approx, npx):
        saved = hypergeo._gammainc_inv, hypergeo._gammainc_der
        saved_it = approx._KLMIN_MAXITT
        approx._KLMIN_MAXITT = 1      # bound: Newton loop followed for <= 2 iterations
        hypergeo._gammainc_inv = _ginv
        hypergeo._gammainc_der = lambda a, y: uf("gammainc_der", (a, y))
        try:
            q1 = Q.of(1) / 4
            q2 = Q.of(3) / 4
            x1 = sym("x1", "pos")
            x2 = x1 if kind == "equal" else x1 + sym("dx", "pos")
            ms = sym("max_shape")
            ctx.assume(ms > 1)
            try:
                a, b = approx.approximate_gamma_iqr(q1, q2, x1, x2, ms)
            except approx.KLMinimizationFailedError:
                ctx.tag("raised-KL")
                return
            except Exception as e:
                ctx.fail("no-exception", detail={"exception": repr(e)[:300]})
                return
        finally:
            hypergeo._gammainc_inv, hypergeo._gammainc_der = saved
            approx._KLMIN_MAXITT = saved_it
        ctx.prove("iqr:shape>0", a + 1 > 0)
        ctx.prove("iqr:shape<=max_shape", a + 1 <= ms)
        ctx.prove("iqr:rate>0", b > 0)
        if (a + 1 == ms) is True:
            ctx.tag("capped")
            ctx.prove("iqr:capped_matches_lower_quantile", b * x1 == _ginv(ms, q1))
        else:
            ctx.tag("uncapped")
            ctx.prove("iqr:matches_lower_quantile", b * x1 == _ginv(a + 1, q1))


def cases(tier):
    from checks import c21
    cs = c21.cases(tier, which=("I",))
    for nm in list(NODE_WRAPPERS) + list(MUT_WRAPPERS):
        cs.append(Case(f"wrapper:{nm}", h_wrapper, dict(name=nm)))
    cs.append(Case("infer_tail", h_infer_tail, dict(nmut=3)))
    cs.append(Case("iqr:equal", h_iqr, dict(kind="equal")))
    cs.append(Case("iqr:sorted", h_iqr, dict(kind="sorted", max_paths=400), weight=30))
    return cs


def run(tier, seed, t0):
    from symx import npx
    cs = cases(tier)
    outs = common.run_cases(cs)
    return common.finish(
        "C05", tier, seed, t0, outs,
        explanation="Inductive invariant I (free node: alpha > -1, beta > 0, alpha + 1 <= "
        "max_shape).  The real propagate_likelihood (every rule, phased and unphased), "
        "propagate_prior, _damp, _rescale and the 14 approx.*_projection wrappers are executed "
        "from an arbitrary symbolic state satisfying I, with the moment functions 'NaN or "
        "arbitrary reals'; z3 proves I afterwards on every path and that no assertion of "
        "_damp/_rescale can fire.  Each wrapper is proved skip-or-valid (proper gamma with the "
        "given moments; phases in [0,1]); the flip block of infer leaves every phase NaN or in "
        "[0.5,1] and hands rescale the caller's max_shape; approximate_gamma_iqr returns a shape "
        "in (0, max_shape] with a positive rate on every path of its Newton loop.",
        functions=["tsdate.variational.ExpectationPropagation.propagate_likelihood/"
                   "propagate_prior/infer", "tsdate.variational._damp/_rescale",
                   "tsdate.approx.*_projection (14)", "tsdate.approx.approximate_gamma_mom/"
                   "approximate_gamma_iqr", "tsdate.approx._valid_moments"],
        bounds={"graphs": sorted(ep_cases.CONFIGS), "updates_per_run": "1 (2 thorough)",
                "newton_iterations": "approximate_gamma_iqr loop followed for <= 2 iterations (_KLMIN_MAXITT set to 1 in the harness); the exit paths have the same shape at every iteration",
                "values": "all states satisfying I, y >= 0, mu > 0, max_shape > 1, "
                          "0 < min_step < 1"},
        stubs=["*_moments -> NaN or arbitrary reals", "hypergeo._gammainc_inv/_gammainc_der, "
               "math.log/exp/lgamma -> uninterpreted", "infer: iterate/propagate_mutations/rescale "
               "replaced on the instance (phases arbitrary in [0,1] or NaN)"],
        assumptions=["max_shape > 1 (max_shape <= 1 trips an assertion: reported under C35)",
                     "the first update of a node whose children are all non-samples is not "
                     "skipped (initial posterior (0,0) is improper until then)", "exact reals"],
        out_of_scope=["finiteness of the real moment functions in floating point (overflow)",
                      "piecewise_scale_posterior's quantile mapping (C25)", "convergence"],
        validated=npx.validate(),
        expect_tags=["rule:free_free", "rule:fixed_child", "rule:fixed_parent", "rule:twin",
                     "skip", "valid", "flipped", "kept", "nan-phase", "capped", "uncapped"],
    )


def replay(payload):
    """Public API on the compiled code over a family of inputs and caps: node/mutation
    posteriors proper, shape <= max_shape, phases in [0.5, 1] or NaN."""
    import tsdate
    from symx import skeletons as SK
    if payload["case"].startswith("wrapper:"):
        # the projection wrappers themselves, on a wide grid incl. nearly flat cavities
        from checks import c18
        return c18.replay(payload)
    bad = []
    for name, ts in (("diploid_two_tree", SK.diploid_two_tree()), ("bal4", SK.bal4()),
                     ("internal_sample", SK.internal_sample()),
                     ("random", SK.random_skeleton(5, n=8, length=40))):
        for phased in (True, False):
            if not phased and (ts.num_individuals == 0 or name == "random"):
                continue
            for max_shape in (1000, 20, 3, 1.5):
                for ri in (0, 3):
                    try:
                        _, fit = tsdate.variational_gamma(
                            ts, mutation_rate=0.1, max_shape=max_shape, rescaling_intervals=ri,
                            singletons_phased=phased, return_fit=True, max_iterations=5)
                    except Exception as e:
                        if "rescaling intervals" in repr(e):
                            continue
                        bad.append((name, phased, max_shape, ri, repr(e)[:80]))
                        continue
                    post = fit.node_posteriors()
                    free = ~np.isin(np.arange(ts.num_nodes), ts.samples())
                    mn, va = post["mean"][free], post["variance"][free]
                    if not (np.all(np.isfinite(mn)) and np.all(mn > 0) and np.all(va > 0)):
                        bad.append((name, phased, max_shape, ri, "improper"))
                    elif np.any(mn ** 2 / va > max_shape * (1 + 1e-9)):
                        bad.append((name, phased, max_shape, ri, "shape>cap",
                                    float(np.max(mn ** 2 / va))))
                    ph = fit.mutation_phase
                    ok = np.isnan(ph) | ((ph >= 0.5) & (ph <= 1))
                    if not np.all(ok):
                        bad.append((name, phased, max_shape, ri, "phase", ph.tolist()))
    return bool(bad), str(bad[:5])
