"""C20 - EP is exact in the conjugate (star) case."""
import math

import numpy as np

from checks import common, ep_h
from checks.common import Case

# name -> (n_nodes, edges (parent, child)); all children are samples at time 0
STARS = {
    "star2": (3, [(2, 0), (2, 1)]),
    "star3": (4, [(3, 0), (3, 1), (3, 2)]),
    "star4": (5, [(4, 0), (4, 1), (4, 2), (4, 3)]),
    "two_stars": (6, [(4, 0), (4, 1), (5, 2), (5, 3)]),
    # one polytomy above the same samples in two trees = two edges per (parent, child)
    "polytomy_two_trees": (3, [(2, 0), (2, 1), (2, 0), (2, 1)]),
}


def h_star(ctx, star, sweeps, regime):
    from symx.dom import sym, Q
    n, edges = STARS[star]
    with ep_h.patched_ep() as (var, approx, npx):
        fixed = [i not in {p for p, c in edges} for i in range(n)]
        st = ep_h.State(ctx, var, n, edges, fixed, init="zero")
        obj = object.__new__(var.ExpectationPropagation)
        obj.edge_parents, obj.edge_children = st.ep, st.ec
        obj.node_constraints = st.constraints
        lik = np.empty((len(edges), 2), dtype=object)
        for e in range(len(edges)):
            lik[e, 0] = sym(f"y{e}", "nonneg")
            lik[e, 1] = sym(f"mu{e}", "pos")
        obj.edge_likelihoods = lik
        obj.block_likelihoods = npx.zeros((0, 2))
        obj.block_nodes = np.zeros((2, 0), dtype=np.int32)
        obj.factors = st.factors
        obj.node_posterior = st.posterior
        obj.edge_logconst = npx.zeros(len(edges))
        obj.block_logconst = npx.zeros(0)
        obj.unconstrained_roots = np.array([not f for f in fixed])
        e = np.arange(len(edges), dtype=np.int32)
        obj.edge_order = np.concatenate((e[:-1], np.flip(e)))
        obj.block_order = np.arange(0, dtype=np.int32)
        max_shape = sym("max_shape")
        ctx.assume(max_shape > 1)
        tot = {}
        for p in {p for p, c in edges}:
            ys = [lik[i, 0] for i, (pp, c) in enumerate(edges) if pp == p]
            ms = [lik[i, 1] for i, (pp, c) in enumerate(edges) if pp == p]
            tot[p] = (sum(ys[1:], ys[0]), sum(ms[1:], ms[0]))
            if regime == "uncapped":
                ctx.assume(1 + tot[p][0] <= max_shape)
            else:
                ctx.assume(1 + tot[p][0] > max_shape)
        for it in range(sweeps):
            try:
                obj.iterate(max_shape=max_shape, min_step=Q.of(1) / 10, regularise=False)
            except Exception as ex:
                ctx.fail("no-exception", detail={"exception": repr(ex)[:300], "sweep": it})
                return
            for p, (Y, M) in tot.items():
                a, b = obj.node_posterior[p]
                if regime == "uncapped":
                    ctx.prove(f"star:sweep{it}:shape[{p}]=1+sum(y)", a == Y)
                    ctx.prove(f"star:sweep{it}:rate[{p}]=sum(mu)", b == M)
                else:
                    ctx.prove(f"star:sweep{it}:capped_shape[{p}]=max_shape", a + 1 == max_shape)
                    ctx.prove(f"star:sweep{it}:capped_rate[{p}]_one_factor",
                              b * Y == (max_shape - 1) * M)
            for s_ in range(n):
                if fixed[s_]:
                    mn, va = obj.node_moments()
                    ctx.prove(f"star:sweep{it}:sample[{s_}]_untouched",
                              (Q.of(mn[s_]) == 0) & (Q.of(va[s_]) == 0)
                              if not isinstance(Q.of(mn[s_]) == 0, bool)
                              else (Q.of(mn[s_]) == 0) and (Q.of(va[s_]) == 0))
        ctx.tag(regime)


def cases(tier):
    cs = []
    spec = [("star2", 1), ("star2", 2), ("star2", 3), ("star3", 1), ("star3", 2),
            ("two_stars", 1), ("polytomy_two_trees", 1)]
    if tier == "thorough":
        spec += [("star3", 3), ("two_stars", 2), ("polytomy_two_trees", 2), ("star2", 5),
                 ("star4", 1), ("star4", 2)]
    for st, k in spec:
        cs.append(Case(f"{st}:{k}:uncapped", h_star, dict(star=st, sweeps=k, regime="uncapped"),
                       weight=k * len(STARS[st][1])))
    # (3 leaves, or 2 sweeps, in the capped regime did not finish (200 s / 2400 s): outside the bound)
    for st, k in [("star2", 1)]:
        cs.append(Case(f"{st}:{k}:capped", h_star, dict(star=st, sweeps=k, regime="capped"),
                       weight=10))
    return cs


def run(tier, seed, t0):
    from symx import npx
    cs = cases(tier)
    outs = common.run_cases(cs)
    return common.finish(
        "C20", tier, seed, t0, outs,
        explanation="The real ExpectationPropagation.iterate (propagate_likelihood, _damp, "
        "_rescale, _rescale_factors, approx.rootward_projection, rootward_moments' conjugate "
        "branch, approximate_gamma_mom, node_moments) is run from the initial state on star "
        "graphs with symbolic per-edge mutation counts and spans, symbolic max_shape, "
        "regularise=False.  After every sweep z3 proves shape = 1 + sum(y), rate = sum(mu) when "
        "the cap does not bind, and the one-factor scaling when it does (the latter is the known "
        "finding F12).",
        functions=["tsdate.variational.ExpectationPropagation.iterate/propagate_likelihood/"
                   "node_moments", "tsdate.variational._damp/_rescale/_rescale_factors",
                   "tsdate.approx.rootward_projection/rootward_moments/approximate_gamma_mom"],
        bounds={"graphs": "stars with 2 leaves x 1-3 sweeps, 3 leaves x 1-2, two disjoint stars, "
                          "two-tree polytomy (quick); + 4 leaves, up to 5 sweeps (thorough)",
                "values": "all y >= 0, mu > 0, max_shape > 1; min_step = 0.1"},
        stubs=["math.lgamma/log (only used for the log normaliser) uninterpreted"],
        assumptions=["exact reals", "regularise=False, no rescaling (as in the statement)"],
        out_of_scope=["stars with more than 3 leaves / more than 3 sweeps", "rounding"],
        validated=npx.validate(),
        expect_tags=["uncapped", "capped"],
    )


def replay(payload):
    """Through tsdate.variational_gamma on a real star tree sequence built from the model."""
    import tskit
    import tsdate
    kw = payload["case_kw"]
    m = common.model_floats(payload["model"])
    n, edges = STARS[kw["star"]]
    infos = []
    cands = []
    ys = [max(0, int(round(float(m.get(f"y{e}", 1))))) for e in range(len(edges))]
    ms = max(float(m.get("max_shape", 1000.0)), 1.0 + 1e-6)
    cands.append((ys, ms))
    if kw["regime"] == "capped":
        cands += [([20, 10][:len(edges)] + [3] * max(0, len(edges) - 2), 10.0),
                  ([200, 100][:len(edges)] + [30] * max(0, len(edges) - 2), 50.0)]
    else:
        cands += [([30, 0][:len(edges)] + [1] * max(0, len(edges) - 2), 1000.0),
                  ([3, 5][:len(edges)] + [2] * max(0, len(edges) - 2), 1000.0)]
    for ys, ms in cands:
        if kw["regime"] == "capped" and 1 + sum(ys) <= ms:
            continue
        if kw["regime"] == "uncapped" and 1 + sum(ys) > ms:
            continue
        t = tskit.TableCollection(100.0)
        parents = sorted({p for p, c in edges})
        for i in range(n):
            t.nodes.add_row(flags=0 if i in parents else 1, time=1.0 if i in parents else 0.0)
        seen = {}
        pos = 0.5
        for e, (p, c) in enumerate(edges):
            k = seen.get((p, c), 0)
            seen[(p, c)] = k + 1
            dup = sum(1 for pc in edges if pc == (p, c))
            left, right = (0.0, 100.0) if dup == 1 else (50.0 * k, 50.0 * (k + 1))
            t.edges.add_row(left, right, p, c)
            for _ in range(ys[e]):
                x = left + (pos % (right - left))
                pos += 0.37
                s = t.sites.add_row(x + 1e-6 * len(t.sites), "0")
                t.mutations.add_row(s, c, "1")
        t.sort()
        t.build_index()
        t.compute_mutation_parents()
        ts = t.tree_sequence()
        mu = 0.01
        for its in (1, 2, 25):
            _, fit = tsdate.variational_gamma(ts, mutation_rate=mu, max_iterations=its,
                                              max_shape=ms, rescaling_intervals=0,
                                              regularise_roots=False, return_fit=True)
            for p in parents:
                Y = sum(y for y, (pp, c) in zip(ys, edges) if pp == p)
                M = sum(mu * (ts.edge(i).span) for i in range(ts.num_edges)
                        if ts.edge(i).parent == p)
                a, b = fit.node_posterior[p]
                if kw["regime"] == "uncapped":
                    ok = abs(a - Y) <= 1e-8 * max(1, Y) and abs(b - M) <= 1e-8 * M
                    want = (Y, M)
                else:
                    want = (ms - 1, (ms - 1) * M / Y)
                    ok = abs(a + 1 - ms) <= 1e-8 * ms and abs(b - want[1]) <= 1e-6 * want[1]
                if not ok:
                    return True, (f"star {kw['star']} y={ys} max_shape={ms} iterations={its}: "
                                  f"node {p} natural parameters ({a}, {b}), expected {want}")
        infos.append(f"ok y={ys} ms={ms}")
    return False, "; ".join(infos)
