"""Canonical multivariate polynomials with Fraction coefficients.

A monomial is a sorted tuple of (var_id, exponent) pairs; a Poly is an immutable
mapping monomial -> Fraction.  This is the term normaliser that sits in front of
z3 (DESIGN.md 2.2): identities that expand to the zero polynomial never reach
the solver, everything else is handed to it as an expanded polynomial.
"""
from fractions import Fraction
import math

import z3

# ---------------------------------------------------------------- variables

_VAR_NAMES = []          # id -> name
_VAR_IDS = {}            # name -> id
_VAR_Z3 = {}             # id -> z3 Real
_VAR_SIGN = {}           # id -> 'pos' | 'nonneg' | None


_Z3_CACHE = {}          # Poly -> z3 term (hash-consing across re-executed paths)


def reset_vars():
    """Forget all variables (called when a new exploration context is created, so that
    sign declarations of one harness can never leak into another)."""
    _VAR_NAMES.clear()
    _VAR_IDS.clear()
    _VAR_Z3.clear()
    _VAR_SIGN.clear()
    _Z3_CACHE.clear()


def var_id(name, sign=None):
    i = _VAR_IDS.get(name)
    if i is None:
        i = len(_VAR_NAMES)
        _VAR_NAMES.append(name)
        _VAR_IDS[name] = i
        _VAR_Z3[i] = z3.Real(name)
        _VAR_SIGN[i] = sign
    elif sign is not None:
        _VAR_SIGN[i] = sign
    return i


def var_name(i):
    return _VAR_NAMES[i]


def var_z3(i):
    return _VAR_Z3[i]


def var_sign(i):
    return _VAR_SIGN.get(i)


def all_vars():
    return list(range(len(_VAR_NAMES)))


def _mono_mul(a, b):
    if not a:
        return b
    if not b:
        return a
    out = []
    i = j = 0
    la, lb = len(a), len(b)
    while i < la and j < lb:
        va, ea = a[i]
        vb, eb = b[j]
        if va == vb:
            out.append((va, ea + eb))
            i += 1
            j += 1
        elif va < vb:
            out.append(a[i])
            i += 1
        else:
            out.append(b[j])
            j += 1
    if i < la:
        out.extend(a[i:])
    if j < lb:
        out.extend(b[j:])
    return tuple(out)


def _mono_div(a, b):
    """a / b if b divides a, else None."""
    if not b:
        return a
    out = []
    j = 0
    lb = len(b)
    for va, ea in a:
        if j < lb and b[j][0] == va:
            e = ea - b[j][1]
            if e < 0:
                return None
            if e > 0:
                out.append((va, e))
            j += 1
        elif j < lb and b[j][0] < va:
            return None
        else:
            out.append((va, ea))
    if j < lb:
        return None
    return tuple(out)


def _mono_key(m):
    # graded lex order key (total degree first, then lexicographic)
    return (sum(e for _, e in m), m)


class Poly:
    __slots__ = ("t", "_h", "_z", "_lead")

    def __init__(self, terms):
        # terms: dict monomial -> Fraction (non-zero); takes ownership
        self.t = terms
        self._h = None
        self._z = None
        self._lead = None

    # -- constructors
    @staticmethod
    def const(c):
        c = Fraction(c)
        return Poly({(): c}) if c != 0 else Poly({})

    @staticmethod
    def var(name, sign=None):
        return Poly({((var_id(name, sign), 1),): Fraction(1)})

    # -- predicates
    def is_zero(self):
        return not self.t

    def is_const(self):
        return not self.t or (len(self.t) == 1 and () in self.t)

    def const_value(self):
        return self.t.get((), Fraction(0))

    def nterms(self):
        return len(self.t)

    def degree(self):
        return max((sum(e for _, e in m) for m in self.t), default=0)

    def variables(self):
        s = set()
        for m in self.t:
            for v, _ in m:
                s.add(v)
        return s

    def __hash__(self):
        if self._h is None:
            self._h = hash(frozenset(self.t.items()))
        return self._h

    def __eq__(self, other):
        return isinstance(other, Poly) and self.t == other.t

    # -- arithmetic
    def __add__(self, other):
        if not other.t:
            return self
        if not self.t:
            return other
        a, b = (self.t, other.t) if len(self.t) >= len(other.t) else (other.t, self.t)
        out = dict(a)
        for m, c in b.items():
            v = out.get(m)
            if v is None:
                out[m] = c
            else:
                v = v + c
                if v == 0:
                    del out[m]
                else:
                    out[m] = v
        return Poly(out)

    def __neg__(self):
        return Poly({m: -c for m, c in self.t.items()})

    def __sub__(self, other):
        return self + (-other)

    def scale(self, c):
        c = Fraction(c)
        if c == 0:
            return Poly({})
        if c == 1:
            return self
        return Poly({m: v * c for m, v in self.t.items()})

    def __mul__(self, other):
        if not self.t or not other.t:
            return Poly({})
        a, b = (self.t, other.t) if len(self.t) <= len(other.t) else (other.t, self.t)
        if len(a) == 1:
            (ma, ca), = a.items()
            if not ma:
                return Poly({m: c * ca for m, c in b.items()})
            return Poly({_mono_mul(ma, m): c * ca for m, c in b.items()})
        out = {}
        get = out.get
        for ma, ca in a.items():
            for mb, cb in b.items():
                m = _mono_mul(ma, mb)
                v = get(m)
                if v is None:
                    out[m] = ca * cb
                else:
                    out[m] = v + ca * cb
        return Poly({m: c for m, c in out.items() if c != 0})

    def __pow__(self, n):
        assert isinstance(n, int) and n >= 0
        r = Poly.const(1)
        b = self
        while n:
            if n & 1:
                r = r * b
            n >>= 1
            if n:
                b = b * b
        return r

    # -- normalisation helpers
    def leading(self):
        if self._lead is None:
            self._lead = max(self.t, key=_mono_key)
        return self._lead

    def content(self):
        """Positive rational c such that self/c has coprime integer coefficients."""
        if not self.t:
            return Fraction(0)
        num = 0
        den = 1
        for c in self.t.values():
            num = math.gcd(num, c.numerator)
            den = den * c.denominator // math.gcd(den, c.denominator)
        return Fraction(num, den)

    def primitive(self):
        """(unit, p) with self == unit * p, p primitive with positive leading coef."""
        c = self.content()
        if self.t[self.leading()] < 0:
            c = -c
        return c, self.scale(1 / c)

    def monomial_gcd(self):
        it = iter(self.t)
        g = dict(next(it))
        for m in it:
            if not g:
                break
            d = dict(m)
            for v in list(g):
                e = d.get(v)
                if e is None:
                    del g[v]
                elif e < g[v]:
                    g[v] = e
        return tuple(sorted(g.items()))

    def div_monomial(self, g):
        if not g:
            return self
        return Poly({_mono_div(m, g): c for m, c in self.t.items()})

    def divide_exact(self, d):
        """Quotient q with self == q*d, or None if d does not divide self."""
        if not d.t:
            return None
        if d.is_const():
            return self.scale(1 / d.const_value())
        if not self.t:
            return self
        ld = d.leading()
        cd = d.t[ld]
        rem = dict(self.t)
        quo = {}
        dt = d.t
        while rem:
            lm = max(rem, key=_mono_key)
            q = _mono_div(lm, ld)
            if q is None:
                return None
            qc = rem[lm] / cd
            quo[q] = qc
            for m, c in dt.items():
                mm = _mono_mul(q, m)
                v = rem.get(mm, 0) - qc * c
                if v == 0:
                    rem.pop(mm, None)
                else:
                    rem[mm] = v
        return Poly(quo)

    # -- sign by inspection
    def trivial_sign(self):
        """'pos', 'neg', 'nonneg', 'nonpos', 'zero' or None, by coefficient signs and
        declared variable signs only (sound, incomplete)."""
        if not self.t:
            return "zero"
        allpos = True
        allneg = True
        strict = False
        for m, c in self.t.items():
            strict_m = True
            for v, e in m:
                s = _VAR_SIGN.get(v)
                if s == "pos":
                    continue
                if s == "nonneg" or e % 2 == 0:
                    strict_m = False
                    continue
                return None
            if c > 0:
                allneg = False
            else:
                allpos = False
            if strict_m:
                strict = True
        if allpos:
            return "pos" if strict else "nonneg"
        if allneg:
            return "neg" if strict else "nonpos"
        return None

    # -- evaluation / z3
    def eval(self, env):
        tot = 0
        for m, c in self.t.items():
            v = c
            for i, e in m:
                v = v * env[i] ** e
            tot = tot + v
        return tot

    def z3(self):
        if self._z is None:
            hit = _Z3_CACHE.get(self)
            if hit is not None:
                self._z = hit
                return hit
            terms = []
            for m, c in sorted(self.t.items(), key=lambda kv: _mono_key(kv[0])):
                fs = []
                for v, e in m:
                    x = _VAR_Z3[v]
                    fs.extend([x] * e)
                if c != 1 or not fs:
                    fs.insert(0, z3.RealVal(str(c)))
                t = fs[0]
                for f in fs[1:]:
                    t = t * f
                terms.append(t)
            if not terms:
                self._z = z3.RealVal(0)
            elif len(terms) == 1:
                self._z = terms[0]
            else:
                self._z = z3.Sum(terms)
            if len(_Z3_CACHE) > 200000:
                _Z3_CACHE.clear()
            _Z3_CACHE[self] = self._z
        return self._z

    def __repr__(self):
        if not self.t:
            return "0"
        parts = []
        for m, c in sorted(self.t.items(), key=lambda kv: _mono_key(kv[0])):
            ms = "*".join(
                _VAR_NAMES[v] + ("" if e == 1 else f"^{e}") for v, e in m
            )
            if not ms:
                parts.append(str(c))
            elif c == 1:
                parts.append(ms)
            elif c == -1:
                parts.append("-" + ms)
            else:
                parts.append(f"{c}*{ms}")
        s = " + ".join(parts)
        return s if len(s) < 400 else s[:400] + f"...[{len(self.t)} terms]"
