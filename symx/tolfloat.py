"""Tolerant floats for replaying exact-arithmetic obligations on double outputs.

Every comparison is lenient towards "the claim holds" by a relative tolerance, so a
replayed obligation evaluates to False only when it is violated by more than rounding."""
import math

RTOL = 1e-9


def _tol(a, b):
    return RTOL * max(1.0, abs(a), abs(b))


class TF(float):
    def _w(self, v):
        return TF(v)

    def __add__(self, o): return TF(float(self) + float(o))
    __radd__ = __add__
    def __sub__(self, o): return TF(float(self) - float(o))
    def __rsub__(self, o): return TF(float(o) - float(self))
    def __mul__(self, o): return TF(float(self) * float(o))
    __rmul__ = __mul__
    def __truediv__(self, o): return TF(float(self) / float(o))
    def __rtruediv__(self, o): return TF(float(o) / float(self))
    def __neg__(self): return TF(-float(self))
    def __abs__(self): return TF(abs(float(self)))
    def __pow__(self, k): return TF(float(self) ** float(k))

    def __ge__(self, o):
        a, b = float(self), float(o)
        return a >= b - _tol(a, b)

    def __gt__(self, o):
        a, b = float(self), float(o)
        return a > b - _tol(a, b)

    def __le__(self, o):
        a, b = float(self), float(o)
        return a <= b + _tol(a, b)

    def __lt__(self, o):
        a, b = float(self), float(o)
        return a < b + _tol(a, b)

    def __eq__(self, o):
        a, b = float(self), float(o)
        if a != a and b != b:
            return True
        return abs(a - b) <= _tol(a, b)

    def __ne__(self, o):
        return not self.__eq__(o)

    __hash__ = float.__hash__


def tf_array(a):
    import numpy as np
    a = np.asarray(a, dtype=float)
    o = np.empty(a.shape, dtype=object)
    o.ravel()[:] = [TF(x) for x in a.ravel()]
    return o
