"""Catalogue of small tree-sequence skeletons (real tskit objects built from tables).

Only the *shape* is concrete; harnesses replace times / coordinates / counts by symbols.
Each builder returns a tskit.TreeSequence whose node times are a valid concrete witness of
the topology (so that tskit accepts and sorts it)."""
import itertools

import numpy as np
import tskit


def _ts(L, nodes, edges, sites=(), muts=(), individuals=None):
    """nodes: list of (is_sample, time[, individual]); edges: (left,right,parent,child);
    sites: positions; muts: (site_index, node)."""
    t = tskit.TableCollection(L)
    if individuals:
        for _ in range(individuals):
            t.individuals.add_row()
    for nd in nodes:
        flags = tskit.NODE_IS_SAMPLE if nd[0] else 0
        ind = nd[2] if len(nd) > 2 else tskit.NULL
        t.nodes.add_row(flags=flags, time=nd[1], individual=ind)
    for l, r, p, c in edges:
        t.edges.add_row(l, r, p, c)
    for x in sites:
        t.sites.add_row(x, "0")
    for s, n in muts:
        t.mutations.add_row(s, n, "1")
    t.sort()
    t.build_index()
    t.compute_mutation_parents()
    return t.tree_sequence()


def cherry():
    return _ts(10, [(1, 0), (1, 0), (0, 1)], [(0, 10, 2, 0), (0, 10, 2, 1)],
               [2, 5], [(0, 0), (1, 1)])


def cat3():
    return _ts(10, [(1, 0)] * 3 + [(0, 1), (0, 2)],
               [(0, 10, 3, 0), (0, 10, 3, 1), (0, 10, 4, 2), (0, 10, 4, 3)],
               [1, 4, 7], [(0, 0), (1, 3), (2, 2)])


def bal4():
    return _ts(10, [(1, 0)] * 4 + [(0, 1), (0, 1.5), (0, 3)],
               [(0, 10, 4, 0), (0, 10, 4, 1), (0, 10, 5, 2), (0, 10, 5, 3),
                (0, 10, 6, 4), (0, 10, 6, 5)],
               [1, 3, 5, 8], [(0, 4), (1, 5), (2, 0), (3, 3)])


def cat4():
    return _ts(10, [(1, 0)] * 4 + [(0, 1), (0, 2), (0, 3)],
               [(0, 10, 4, 0), (0, 10, 4, 1), (0, 10, 5, 4), (0, 10, 5, 2),
                (0, 10, 6, 5), (0, 10, 6, 3)],
               [2, 6], [(0, 4), (1, 5)])


def tri():
    return _ts(10, [(1, 0)] * 3 + [(0, 1)],
               [(0, 10, 3, 0), (0, 10, 3, 1), (0, 10, 3, 2)], [5], [(0, 1)])


def star4():
    return _ts(10, [(1, 0)] * 4 + [(0, 1)],
               [(0, 10, 4, i) for i in range(4)], [2, 5], [(0, 1), (1, 2)])


def internal_sample():
    """sample 3 (time 1) is the parent of samples 0,1 and a child of root 4."""
    return _ts(10, [(1, 0), (1, 0), (1, 0), (1, 1), (0, 2)],
               [(0, 10, 3, 0), (0, 10, 3, 1), (0, 10, 4, 3), (0, 10, 4, 2)],
               [3], [(0, 3)])


def historical_leaf():
    """sample 2 is a leaf at time 0.5 (non-contemporaneous)."""
    return _ts(10, [(1, 0), (1, 0), (1, 0.5), (0, 1), (0, 2)],
               [(0, 10, 3, 0), (0, 10, 3, 1), (0, 10, 4, 3), (0, 10, 4, 2)],
               [3], [(0, 3)])


def root_not_last():
    """oldest root is node 3, a younger internal node has id 4."""
    return _ts(10, [(1, 0)] * 3 + [(0, 2), (0, 1)],
               [(0, 10, 4, 0), (0, 10, 4, 1), (0, 10, 3, 2), (0, 10, 3, 4)],
               [1, 6], [(0, 4), (1, 2)])


def two_tree():
    """one recombination, shared MRCA 5: [0,4): ((0,1)3,2)5 ; [4,10): ((0,2)4,1)5."""
    return _ts(10, [(1, 0)] * 3 + [(0, 1), (0, 1.2), (0, 2)],
               [(0, 4, 3, 0), (0, 4, 3, 1), (4, 10, 4, 0), (4, 10, 4, 2),
                (0, 4, 5, 3), (0, 4, 5, 2), (4, 10, 5, 4), (4, 10, 5, 1)],
               [1, 3, 6, 8], [(0, 3), (1, 2), (2, 4), (3, 1)])


def two_parents():
    """node 3 has two different parents across trees: [0,5) 3->4, [5,10) 3->5."""
    return _ts(10, [(1, 0)] * 3 + [(0, 1), (0, 2), (0, 3)],
               [(0, 10, 3, 0), (0, 10, 3, 1), (0, 5, 4, 3), (0, 5, 4, 2),
                (5, 10, 5, 3), (5, 10, 5, 2)],
               [2, 7], [(0, 3), (1, 2)])


def disjoint_node():
    """node 3 present in trees 1 and 3 but not 2."""
    return _ts(12, [(1, 0)] * 3 + [(0, 1), (0, 1.5), (0, 3)],
               [(0, 4, 3, 0), (0, 4, 3, 1), (8, 12, 3, 0), (8, 12, 3, 1),
                (4, 8, 4, 0), (4, 8, 4, 2),
                (0, 4, 5, 3), (0, 4, 5, 2), (8, 12, 5, 3), (8, 12, 5, 2),
                (4, 8, 5, 4), (4, 8, 5, 1)],
               [1, 5, 9], [(0, 3), (1, 4), (2, 3)])


def unary_nonsample():
    """node 3 is unary over [5,10)."""
    return _ts(10, [(1, 0)] * 3 + [(0, 1), (0, 2)],
               [(0, 10, 3, 0), (0, 5, 3, 1), (0, 10, 4, 3), (0, 10, 4, 2), (5, 10, 4, 1)],
               [2, 7], [(0, 3), (1, 1)])


def unary_sample():
    """internal sample 3 has the single child 0."""
    return _ts(10, [(1, 0), (1, 0), (1, 1), (0, 2)],
               [(0, 10, 2, 0), (0, 10, 3, 2), (0, 10, 3, 1)], [4], [(0, 2)])


def two_roots():
    """tree on [5,10) has two roots (3 and 2 isolated->root)."""
    return _ts(10, [(1, 0)] * 3 + [(0, 1), (0, 2)],
               [(0, 10, 3, 0), (0, 10, 3, 1), (0, 5, 4, 3), (0, 5, 4, 2)],
               [2, 7], [(0, 3), (1, 2)])


def mutation_above_root():
    return _ts(10, [(1, 0)] * 3 + [(0, 1), (0, 2)],
               [(0, 10, 3, 0), (0, 10, 3, 1), (0, 10, 4, 3), (0, 10, 4, 2)],
               [2, 7], [(0, 4), (1, 0)])


def diploid_cherry():
    """one diploid individual (nodes 0,1) + one (2,3); single tree."""
    return _ts(10, [(1, 0, 0), (1, 0, 0), (1, 0, 1), (1, 0, 1), (0, 1), (0, 1.5), (0, 3)],
               [(0, 10, 4, 0), (0, 10, 4, 2), (0, 10, 5, 1), (0, 10, 5, 3),
                (0, 10, 6, 4), (0, 10, 6, 5)],
               [1, 3, 5, 8], [(0, 0), (1, 1), (2, 2), (3, 4)], individuals=2)


def diploid_two_tree():
    """one diploid individual (0,1) whose leaf edges change at different breakpoints."""
    return _ts(12, [(1, 0, 0), (1, 0, 0), (1, 0), (0, 1), (0, 1.5), (0, 3)],
               [(0, 6, 3, 0), (0, 6, 3, 2), (6, 12, 4, 0), (6, 12, 4, 2),
                (0, 12, 5, 1), (0, 6, 5, 3), (6, 12, 5, 4)],
               [1, 4, 8, 10], [(0, 0), (1, 1), (2, 0), (3, 2)], individuals=1)


S1 = {"cherry": cherry, "cat3": cat3, "bal4": bal4, "cat4": cat4, "tri": tri,
      "star4": star4, "root_not_last": root_not_last}
S1_HIST = {"internal_sample": internal_sample, "historical_leaf": historical_leaf}
S2 = {"two_tree": two_tree, "two_parents": two_parents, "disjoint_node": disjoint_node,
      "two_roots": two_roots, "mutation_above_root": mutation_above_root}
S2_UNARY = {"unary_nonsample": unary_nonsample, "unary_sample": unary_sample}
S3 = {"diploid_cherry": diploid_cherry, "diploid_two_tree": diploid_two_tree}


class _Named(dict):
    """catalogue plus dynamically named msprime skeletons "rand:<seed>:<samples>:<length>"."""

    def __missing__(self, k):
        if isinstance(k, str) and k.startswith("rand:"):
            _, seed, n, length = k.split(":")
            return lambda: random_skeleton(int(seed), n=int(n), length=int(length))
        raise KeyError(k)


def all_named():
    d = _Named()
    for g in (S1, S1_HIST, S2, S2_UNARY, S3):
        d.update(g)
    return d


def random_names(k=4, n=4, length=12):
    """names of k msprime skeletons for the thorough tier (VERIF_SEED selects the family)"""
    import os
    base = int(os.environ.get("VERIF_SEED", "1")) * 100
    return [f"rand:{base + i}:{n}:{length}" for i in range(k)]


def children_first_orders(ts, limit=None):
    """All permutations of edge rows such that every edge whose parent is c precedes every
    edge whose child is c (what tskit's sortedness by parent time guarantees)."""
    E = ts.num_edges
    par, chi = ts.edges_parent, ts.edges_child
    out = []
    for perm in itertools.permutations(range(E)):
        pos = {e: i for i, e in enumerate(perm)}
        ok = True
        for e in range(E):
            for f in range(E):
                if par[f] == chi[e] and pos[f] > pos[e]:
                    ok = False
                    break
            if not ok:
                break
        if ok:
            out.append(perm)
            if limit and len(out) >= limit:
                break
    return out


def random_skeleton(seed, n=4, length=10, rho=0.2):
    """msprime-simulated small ARG (shape only), deterministic in `seed`."""
    import msprime
    ts = msprime.sim_ancestry(n, ploidy=1, sequence_length=length, recombination_rate=rho,
                              random_seed=seed + 1)
    ts = msprime.sim_mutations(ts, rate=0.15, random_seed=seed + 1)
    return ts


# ---------------------------------------------------------------- all tree shapes

def _shapes(n):
    """Canonical rooted tree shapes with n leaves (every internal node has >= 2 children),
    as nested tuples; a leaf is ()."""
    if n == 1:
        return [()]
    out = set()

    def parts(m, maxpart):
        # integer partitions of m into parts <= maxpart, at least 2 parts overall handled by caller
        if m == 0:
            yield []
            return
        for p in range(min(m, maxpart), 0, -1):
            for rest in parts(m - p, p):
                yield [p] + rest

    for part in parts(n, n - 1):
        if len(part) < 2:
            continue
        pools = [_shapes(p) for p in part]
        for combo in itertools.product(*pools):
            out.add(tuple(sorted(combo, key=repr)))
    return sorted(out, key=repr)


def shape_ts(shape, L=10.0, mutate=True):
    """Build a single-tree tree sequence from a nested-tuple shape; one mutation on every
    second edge so that counts differ between edges."""
    nodes, edges = [], []
    leaves = []

    def count_leaves(s):
        return 1 if s == () else sum(count_leaves(c) for c in s)

    nleaf = count_leaves(shape)
    next_leaf = [0]
    internal = []

    def build(s):
        if s == ():
            i = next_leaf[0]
            next_leaf[0] += 1
            return i, 0.0
        kids = [build(c) for c in s]
        t = max(k[1] for k in kids) + 1.0
        idx = nleaf + len(internal)
        internal.append((idx, t))
        for k, _ in kids:
            edges.append((0, L, idx, k))
        return idx, t

    build(shape)
    nodes = [(1, 0.0)] * nleaf + [(0, t) for _, t in sorted(internal)]
    sites, muts = [], []
    if mutate:
        for j, (_, _, p, c) in enumerate(edges):
            if j % 2 == 0:
                sites.append(0.5 + j)
                muts.append((len(sites) - 1, c))
    return _ts(L if not sites else max(L, sites[-1] + 1), nodes,
               [(0, (L if not sites else max(L, sites[-1] + 1)), p, c) for _, _, p, c in edges],
               sites, muts)


def all_shapes(n):
    return _shapes(n)


def two_mrcas_oldest_last():
    """two trees with different roots 6 (time 2) and 7 (time 3, oldest, last id)."""
    return _ts(10, [(1, 0)] * 4 + [(0, 1), (0, 1.2), (0, 2), (0, 3)],
               [(0, 10, 4, 0), (0, 10, 4, 1), (0, 10, 5, 2), (0, 10, 5, 3),
                (0, 4, 6, 4), (0, 4, 6, 5), (4, 10, 7, 4), (4, 10, 7, 5)],
               [2, 6], [(0, 4), (1, 5)])


def two_mrcas_oldest_first():
    """as above but the oldest root is node 6 (time 3) and the last node 7 is younger."""
    return _ts(10, [(1, 0)] * 4 + [(0, 1), (0, 1.2), (0, 3), (0, 2)],
               [(0, 10, 4, 0), (0, 10, 4, 1), (0, 10, 5, 2), (0, 10, 5, 3),
                (0, 4, 6, 4), (0, 4, 6, 5), (4, 10, 7, 4), (4, 10, 7, 5)],
               [2, 6], [(0, 4), (1, 5)])


S2["two_mrcas_oldest_last"] = two_mrcas_oldest_last
S2["two_mrcas_oldest_first"] = two_mrcas_oldest_first


def diploid_missing():
    """diploid individual (nodes 0,1); node 1 is isolated (missing) on [0,4); node 0's leaf
    edge changes inside that region at 2; no singleton sits in the one-branch region."""
    return _ts(12, [(1, 0, 0), (1, 0, 0), (1, 0), (1, 0), (0, 1), (0, 1.5), (0, 3)],
               [(0, 2, 4, 0), (2, 12, 5, 0), (4, 12, 5, 1), (0, 12, 4, 2), (0, 2, 5, 3),
                (2, 12, 4, 3), (0, 12, 6, 4), (0, 12, 6, 5)],
               [5, 8, 10], [(0, 0), (1, 1), (2, 2)], individuals=1)


S3["diploid_missing"] = diploid_missing


def swap_child():
    """node 3 swaps child 1 for child 2 at position 5 (never unary: remove+insert coincide)."""
    return _ts(10, [(1, 0)] * 3 + [(0, 1), (0, 2)],
               [(0, 10, 3, 0), (0, 5, 3, 1), (5, 10, 3, 2), (0, 5, 4, 2), (5, 10, 4, 1),
                (0, 10, 4, 3)],
               [2, 7], [(0, 3), (1, 1)])


def three_pieces():
    """node 3 is present on [0,3), [5,7) and [9,12) (three disjoint pieces), with a mutation in
    each piece; node 4 replaces it in between."""
    e = []
    for l, r in ((0, 3), (5, 7), (9, 12)):
        e += [(l, r, 3, 0), (l, r, 3, 1), (l, r, 5, 3), (l, r, 5, 2)]
    for l, r in ((3, 5), (7, 9)):
        e += [(l, r, 4, 0), (l, r, 4, 2), (l, r, 5, 4), (l, r, 5, 1)]
    return _ts(12, [(1, 0)] * 3 + [(0, 1), (0, 1.5), (0, 3)], e,
               [1, 4, 6, 10], [(0, 3), (1, 4), (2, 3), (3, 3)])


def isolated_sample_mutation():
    """sample 2 is isolated on [5,10) and carries a mutation there; a site lies beyond the
    last edge-covered position is not possible in tskit, but the last tree has an isolated node."""
    return _ts(10, [(1, 0)] * 3 + [(0, 1), (0, 2)],
               [(0, 10, 3, 0), (0, 10, 3, 1), (0, 5, 4, 3), (0, 5, 4, 2)],
               [2, 7], [(0, 3), (1, 2)])


def trailing_gap():
    """no edges at all on [8,10), and a site with a mutation on sample 0 at 9."""
    return _ts(10, [(1, 0)] * 3 + [(0, 1), (0, 2)],
               [(0, 8, 3, 0), (0, 8, 3, 1), (0, 8, 4, 3), (0, 8, 4, 2)],
               [2, 9], [(0, 3), (1, 0)])


S2["swap_child"] = swap_child
S2["three_pieces"] = three_pieces
S2["isolated_sample_mutation"] = isolated_sample_mutation
S2["trailing_gap"] = trailing_gap


def edgeless_sample_mutation():
    """sample 3 takes part in no edge at all (missing everywhere) but carries a mutation."""
    return _ts(10, [(1, 0)] * 4 + [(0, 1), (0, 2)],
               [(0, 10, 4, 0), (0, 10, 4, 1), (0, 10, 5, 4), (0, 10, 5, 2)],
               [2, 7], [(0, 4), (1, 3)])


S2["edgeless_sample_mutation"] = edgeless_sample_mutation


def two_mrcas_root_muts():
    """two trees with different roots 6 (time 3) and 7 (time 2); mutations above both roots,
    above internal nodes, two mutations at one site, and a site without mutations."""
    return _ts(10, [(1, 0)] * 4 + [(0, 1), (0, 1.2), (0, 3), (0, 2)],
               [(0, 10, 4, 0), (0, 10, 4, 1), (0, 10, 5, 2), (0, 10, 5, 3),
                (0, 4, 6, 4), (0, 4, 6, 5), (4, 10, 7, 4), (4, 10, 7, 5)],
               [1, 2, 3, 6, 7, 8], [(0, 6), (1, 4), (3, 7), (4, 5), (4, 0), (5, 2)])


S2["two_mrcas_root_muts"] = two_mrcas_root_muts


def root_pieces():
    """the root 4 is present on [0,3) and [6,10) (root 5 in between); mutations sit above the
    root in both pieces and above node 3."""
    e = []
    for l, r in ((0, 3), (6, 10)):
        e += [(l, r, 4, 3), (l, r, 4, 2)]
    e += [(3, 6, 5, 3), (3, 6, 5, 2), (0, 10, 3, 0), (0, 10, 3, 1)]
    return _ts(10, [(1, 0)] * 3 + [(0, 1), (0, 2), (0, 2.5)], e,
               [1, 4, 7, 8], [(0, 4), (1, 5), (2, 4), (3, 3)])


def sample_parent_pieces():
    """internal sample 3 is the parent of non-sample node 4 on [0,3) and [7,10); node 4 is
    absent in between (its children attach to 3 directly)."""
    return _ts(10, [(1, 0), (1, 0), (1, 0), (1, 2.0), (0, 1.0), (0, 3.0)],
               [(0, 3, 4, 0), (0, 3, 4, 1), (7, 10, 4, 0), (7, 10, 4, 1),
                (0, 3, 3, 4), (7, 10, 3, 4), (3, 7, 3, 0), (3, 7, 3, 1),
                (0, 10, 5, 3), (0, 10, 5, 2)],
               [1, 5, 8], [(0, 4), (1, 0), (2, 4)])


S2["root_pieces"] = root_pieces
S2["sample_parent_pieces"] = sample_parent_pieces


def missing_sample():
    """sample 3 is isolated (missing) on [0,4): trees with 3 and with 4 samples, one root each."""
    return _ts(10, [(1, 0)] * 4 + [(0, 1), (0, 2), (0, 3)],
               [(0, 10, 4, 0), (0, 10, 4, 1), (0, 10, 5, 4), (0, 10, 5, 2),
                (4, 10, 6, 5), (4, 10, 6, 3)],
               [2, 7], [(0, 4), (1, 3)])


S2["missing_sample"] = missing_sample


def cat3_samples_last():
    """cat3 with the samples numbered after the internal nodes (tsinfer-style numbering)."""
    ts = cat3()
    t = ts.dump_tables()
    t.subset(np.array([3, 4, 0, 1, 2], dtype=np.int32))
    t.sort()
    t.build_index()
    t.compute_mutation_parents()
    return t.tree_sequence()


S1["cat3_samples_last"] = cat3_samples_last


def diploid_three_tree():
    """diploid individual (nodes 0,1): node 1's leaf edge (to the young node 4) spans the whole
    genome while node 0's leaf edge changes at 4 and 8; singletons in every block."""
    return _ts(12, [(1, 0, 0), (1, 0, 0), (1, 0), (1, 0), (0, 0.5), (0, 1.5), (0, 2.0), (0, 3.0)],
               [(0, 12, 4, 1), (0, 12, 4, 2),
                (0, 4, 5, 0), (4, 8, 6, 0), (8, 12, 5, 0),
                (0, 4, 5, 3), (4, 8, 6, 3), (8, 12, 5, 3),
                (0, 12, 7, 4), (0, 4, 7, 5), (8, 12, 7, 5), (4, 8, 7, 6)],
               [1, 2, 5, 6, 9, 10], [(0, 0), (1, 1), (2, 0), (3, 1), (4, 0), (5, 4)],
               individuals=1)


S3["diploid_three_tree"] = diploid_three_tree


def dead_branch():
    """cat3 in which sample 1's only edge stops at 5: on [5,10) node 1 is isolated and node 3 is
    unary, at a breakpoint where an edge is removed and none is inserted."""
    return _ts(10, [(1, 0)] * 3 + [(0, 1), (0, 2)],
               [(0, 10, 3, 0), (0, 5, 3, 1), (0, 10, 4, 2), (0, 10, 4, 3)],
               [1, 4, 7], [(0, 0), (1, 3), (2, 2)])


def dead_branch_mid():
    """as dead_branch but a later insertion elsewhere follows the removal-only breakpoint."""
    return _ts(10, [(1, 0)] * 4 + [(0, 1), (0, 2), (0, 3)],
               [(0, 10, 4, 0), (0, 4, 4, 1), (0, 10, 5, 2), (0, 10, 5, 4),
                (0, 7, 6, 3), (7, 10, 5, 3), (0, 7, 6, 5)],
               [1, 5, 8], [(0, 0), (1, 4), (2, 2)])


S2_UNARY["dead_branch"] = dead_branch
S2_UNARY["dead_branch_mid"] = dead_branch_mid


def local_root_mutation():
    """((0,1)3,2)4 on [0,5); (0,1)3 with 2 isolated on [5,10): node 3 has a parent edge on the
    left and is a root on the right, where it carries a mutation (site 7.5)."""
    return _ts(10, [(1, 0)] * 3 + [(0, 1), (0, 2)],
               [(0, 10, 3, 0), (0, 10, 3, 1), (0, 5, 4, 3), (0, 5, 4, 2)],
               [1, 3, 6, 7.5], [(0, 0), (1, 3), (2, 1), (3, 3)])


S2["local_root_mutation"] = local_root_mutation


def multi_hit():
    """two_tree with a site (position 6) carrying two mutations on different nodes, one
    mutation-free (monomorphic) site at 5 and one at 9."""
    return _ts(10, [(1, 0)] * 3 + [(0, 1), (0, 1.2), (0, 2)],
               [(0, 4, 3, 0), (0, 4, 3, 1), (4, 10, 4, 0), (4, 10, 4, 2),
                (0, 4, 5, 3), (0, 4, 5, 2), (4, 10, 5, 4), (4, 10, 5, 1)],
               [1, 3, 6, 8], [(0, 3), (1, 2), (2, 4), (2, 1), (3, 1)])


S2["multi_hit"] = multi_hit


def multi_hit_mono():
    """multi_hit plus one mutation-free site at 2 (in the other tree than the doubly-hit site):
    as many sites as mutations, yet not one mutation per site."""
    return _ts(10, [(1, 0)] * 3 + [(0, 1), (0, 1.2), (0, 2)],
               [(0, 4, 3, 0), (0, 4, 3, 1), (4, 10, 4, 0), (4, 10, 4, 2),
                (0, 4, 5, 3), (0, 4, 5, 2), (4, 10, 5, 4), (4, 10, 5, 1)],
               [1, 2, 3, 6, 8], [(0, 3), (2, 2), (3, 4), (3, 1), (4, 1)])


S2["multi_hit_mono"] = multi_hit_mono


def missing_twins():
    """4 samples, sample 3 missing (isolated) on [10,20).  Nodes 4 (left half, 4 samples in the
    tree) and 5 (right half, 3 samples) both sit above 2 samples for 4 units and above 3 samples
    for 6 units: identical (tips, span) tables under different numbers of samples."""
    return _ts(20, [(1, 0)] * 4 + [(0, 1.0), (0, 1.0), (0, 2.0)],
               [(0, 10, 4, 0), (0, 10, 4, 1), (4, 10, 4, 2), (0, 4, 6, 2), (0, 10, 6, 3),
                (0, 10, 6, 4), (10, 20, 5, 0), (10, 20, 5, 1), (14, 20, 5, 2), (10, 14, 6, 2),
                (10, 14, 6, 5)],
               [2, 12], [(0, 0), (1, 1)])


S2["missing_twins"] = missing_twins


def unary_nonsample_flagged():
    """unary_nonsample whose unary node 3 (not a sample) carries another flag bit (as msprime's
    recombination / common-ancestor event nodes or tsinfer's path-compression nodes do)."""
    t = unary_nonsample().dump_tables()
    flags = t.nodes.flags.copy()
    flags[3] = 1 << 17
    t.nodes.flags = flags
    return t.tree_sequence()


S2_UNARY["unary_nonsample_flagged"] = unary_nonsample_flagged
