"""NumPy proxy used as the `np` global of a tsdate module under analysis.

Everything is forwarded to real NumPy except (a) float allocations, which become
object arrays so they can hold symbolic scalars, and (b) scalar predicates and
transcendental functions that NumPy cannot apply to objects.  This is the
environment model; `validate()` runs the overridden functions on concrete floats
through both the proxy and real NumPy and requires identical results.
"""
import math
import numbers

import numpy as _np

from .dom import Q, LogQ, SymBool, is_sym, _is_num
from . import uf as _uf

_FLOAT_KINDS = ("f",)


def _want_object(dtype):
    if dtype is None:
        return True
    try:
        return _np.dtype(dtype).kind in _FLOAT_KINDS
    except TypeError:
        return False


def _pyfloat(x):
    if isinstance(x, (_np.floating, float)):
        return float(x)
    if isinstance(x, (_np.integer,)):
        return int(x)
    return x


def _objectify(a):
    """float array -> object array of Python floats (same shape)."""
    a = _np.asarray(a)
    if a.dtype.kind in _FLOAT_KINDS:
        o = _np.empty(a.shape, dtype=object)
        if a.ndim == 0:
            o[()] = float(a)
        else:
            o.ravel()[:] = [float(x) for x in a.ravel()]
        return o
    return a


def _elementwise(f):
    def g(x, *a, **k):
        if isinstance(x, _np.ndarray):
            if x.dtype == object:
                out = _np.empty(x.shape, dtype=object)
                flat = [f(v) for v in x.ravel()]
                if x.ndim == 0:
                    out[()] = flat[0]
                else:
                    out.ravel()[:] = flat
                return out
            return getattr(_np, f.__name__.lstrip("_"))(x, *a, **k)
        if isinstance(x, (list, tuple)):
            return g(_np.array(x, dtype=object))
        return f(x)
    return g


def _bool_elementwise(f):
    def g(x, *a, **k):
        if isinstance(x, _np.ndarray):
            if x.dtype == object:
                out = _np.empty(x.shape, dtype=bool)
                flat = [bool(f(v)) for v in x.ravel()]
                if x.ndim == 0:
                    return _np.bool_(flat[0])
                out.ravel()[:] = flat
                return out
            return getattr(_np, f.__name__.lstrip("_"))(x, *a, **k)
        if isinstance(x, (list, tuple)):
            return g(_np.array(x, dtype=object))
        return f(x)
    return g


def _isnan(v):
    if is_sym(v):
        return False
    return v != v


def _isinf(v):
    if is_sym(v):
        return False
    return v in (math.inf, -math.inf)


def _isfinite(v):
    if is_sym(v):
        return True
    return not (v != v or v in (math.inf, -math.inf))


def _exp(v):
    if is_sym(v):
        return v.exp()
    try:
        return math.exp(v)
    except OverflowError:
        return math.inf


def _log(v):
    if is_sym(v):
        return v.log()
    if v == 0:
        return -math.inf
    if v < 0 or v != v:
        return math.nan
    return math.log(v) if v != math.inf else math.inf


def _sqrt(v):
    if is_sym(v):
        return v.sqrt()
    return math.sqrt(v) if v >= 0 else math.nan


def _abs(v):
    return abs(v)


class NPX:
    """Stand-in for the numpy module."""

    fork_isclose = True   # False: symbolic operands count as "close" without a solver fork
                          # (only for harnesses where the result feeds logging alone)

    def __init__(self):
        self._np = _np

    def __getattr__(self, name):
        return getattr(_np, name)

    # ---- allocation
    def zeros(self, shape, dtype=None, **k):
        if _want_object(dtype):
            a = _np.empty(shape, dtype=object)
            a.fill(0.0)
            return a
        return _np.zeros(shape, dtype=dtype, **k)

    def ones(self, shape, dtype=None, **k):
        if _want_object(dtype):
            a = _np.empty(shape, dtype=object)
            a.fill(1.0)
            return a
        return _np.ones(shape, dtype=dtype, **k)

    def empty(self, shape, dtype=None, **k):
        if _want_object(dtype):
            a = _np.empty(shape, dtype=object)
            a.fill(math.nan)
            return a
        return _np.empty(shape, dtype=dtype, **k)

    def full(self, shape, fill_value, dtype=None, **k):
        if dtype is None:
            if is_sym(fill_value) or isinstance(fill_value, (float, _np.floating)):
                a = _np.empty(shape, dtype=object)
                a.fill(_pyfloat(fill_value))
                return a
            return _np.full(shape, fill_value, **k)
        if _want_object(dtype):
            a = _np.empty(shape, dtype=object)
            a.fill(_pyfloat(fill_value) if not isinstance(fill_value, (int, bool)) else float(fill_value))
            return a
        return _np.full(shape, fill_value, dtype=dtype, **k)

    def zeros_like(self, a, dtype=None, **k):
        a = _np.asarray(a)
        if dtype is None and a.dtype.kind in ("f", "O"):
            return self.zeros(a.shape)
        return _np.zeros_like(a, dtype=dtype, **k)

    def ones_like(self, a, dtype=None, **k):
        a = _np.asarray(a)
        if dtype is None and a.dtype.kind in ("f", "O"):
            return self.ones(a.shape)
        return _np.ones_like(a, dtype=dtype, **k)

    def full_like(self, a, fill_value, dtype=None, **k):
        a = _np.asarray(a)
        if dtype is None and a.dtype.kind in ("f", "O"):
            return self.full(a.shape, float(fill_value) if not is_sym(fill_value) else fill_value)
        return _np.full_like(a, fill_value, dtype=dtype, **k)

    def array(self, obj, dtype=None, **k):
        if dtype is not None and not _want_object(dtype):
            return _np.array(obj, dtype=dtype, **k)
        if dtype is not None and isinstance(dtype, _np.dtype) and dtype.kind == "V":
            return _np.array(obj, dtype=dtype, **k)
        if isinstance(obj, _np.ndarray) and obj.dtype == object:
            return _np.array(obj, dtype=object, **k)
        try:
            a = _np.array(obj, **k) if dtype is None else _np.array(obj, dtype=dtype, **k)
        except (TypeError, ValueError):
            a = _np.array(obj, dtype=object, **k)
        return _objectify(a)

    def asarray(self, obj, dtype=None, **k):
        if isinstance(obj, _np.ndarray) and dtype is None:
            return obj
        return self.array(obj, dtype=dtype, **k)

    def ascontiguousarray(self, a, dtype=None):
        a = _np.asarray(a)
        if a.dtype == object:
            return a.copy()
        return _objectify(_np.ascontiguousarray(a, dtype=dtype))

    def dtype(self, spec, *a, **k):
        """structured dtypes: float fields become object fields so they can hold symbols"""
        if isinstance(spec, dict) and "formats" in spec:
            spec = dict(spec)
            spec["formats"] = tuple(object if _want_object(f) and f is not None else f
                                    for f in spec["formats"])
        return _np.dtype(spec, *a, **k)

    def linspace(self, *a, **k):
        return _np.linspace(*a, **k)

    # ---- predicates / transcendental
    isnan = staticmethod(_bool_elementwise(_isnan))
    isinf = staticmethod(_bool_elementwise(_isinf))
    isfinite = staticmethod(_bool_elementwise(_isfinite))
    exp = staticmethod(_elementwise(_exp))
    log = staticmethod(_elementwise(_log))
    sqrt = staticmethod(_elementwise(_sqrt))

    def abs(self, x):
        if isinstance(x, _np.ndarray):
            return _np.abs(x)
        return abs(x)

    absolute = abs

    def isclose(self, a, b, *args, **k):
        a_, b_ = _np.asarray(a), _np.asarray(b)
        if a_.dtype != object and b_.dtype != object:
            return _np.isclose(a, b, *args, **k)
        # exact arithmetic: closeness is equality
        eq = _np.empty(_np.broadcast(a_, b_).shape, dtype=bool)
        it = _np.broadcast(a_, b_)
        flat = []
        for x, y in it:
            if not is_sym(x) and not is_sym(y):
                fx, fy = float(x), float(y)
                flat.append(bool(_np.isclose(fx, fy, *args, **k)))
            elif not self.fork_isclose:
                flat.append(True)
            else:
                flat.append(bool(x == y))
        if eq.ndim == 0:
            return _np.bool_(flat[0])
        eq.ravel()[:] = flat
        return eq

    def allclose(self, a, b, *args, **k):
        return bool(_np.all(self.isclose(a, b, *args, **k)))

    def maximum(self, a, b):
        a_, b_ = _np.asarray(a), _np.asarray(b)
        if a_.dtype != object and b_.dtype != object:
            return _np.maximum(a, b)
        f = _np.frompyfunc(lambda x, y: x if (x >= y) else y, 2, 1)
        return f(a_, b_)

    def minimum(self, a, b):
        a_, b_ = _np.asarray(a), _np.asarray(b)
        if a_.dtype != object and b_.dtype != object:
            return _np.minimum(a, b)
        f = _np.frompyfunc(lambda x, y: x if (x <= y) else y, 2, 1)
        return f(a_, b_)

    def nextafter(self, x, y):
        """Q: some value strictly beyond x in the direction of y (x + fresh positive step,
        a superset of the double successor); FP: the exact IEEE successor/predecessor."""
        from .dom import FP, Q, fresh
        from . import ctx as _c
        import z3
        if isinstance(x, Q) or isinstance(y, Q):
            up = bool(Q.of(y) > x) if is_sym(y) else (float(y) > 0 or float(y) == math.inf)
            d = fresh("ulp_", "pos")
            return x + d if up else x - d
        if isinstance(x, FP):
            up = float(y) == math.inf if not is_sym(y) else bool(y > x)
            r = FP.var(_c.cur().fresh_name("nextafter_"))
            bx, br = z3.fpToIEEEBV(x.z), z3.fpToIEEEBV(r.z)
            cx = _c.cur()
            pos = z3.Not(z3.fpIsNegative(x.z))
            step = z3.If(pos == z3.BoolVal(up), bx + 1, bx - 1)
            cx.assume(z3.Implies(z3.And(z3.Not(z3.fpIsZero(x.z)), z3.Not(z3.fpIsInf(x.z)),
                                        z3.Not(z3.fpIsNaN(x.z))), br == step))
            cx.assume(z3.Implies(z3.Or(z3.fpIsInf(x.z), z3.fpIsNaN(x.z)), r.z == x.z))
            cx.assume(z3.Implies(z3.fpIsZero(x.z), br == z3.BitVecVal(1 if up else (1 << 63) + 1, 64)))
            return r
        return _np.nextafter(x, y)

    def bincount(self, x, weights=None, minlength=0):
        if weights is None or _np.asarray(weights).dtype != object:
            return _np.bincount(x, weights=weights, minlength=minlength)
        x = _np.asarray(x)
        n = max(int(x.max()) + 1 if x.size else 0, minlength)
        out = _np.empty(n, dtype=object)
        out.fill(0.0)
        for i, w in zip(x, weights):
            out[int(i)] = out[int(i)] + w
        return out

    def power(self, a, b):
        a_ = _np.asarray(a)
        if a_.dtype != object and not is_sym(b):
            return _np.power(a, b)
        return a_ ** b

    @property
    def testing(self):
        return _Testing(self)


class _Testing:
    def __init__(self, npx):
        self._npx = npx

    def __getattr__(self, name):
        return getattr(_np.testing, name)

    def assert_allclose(self, actual, desired, *a, **k):
        if not self._npx.allclose(actual, desired):
            raise AssertionError("assert_allclose failed (exact arithmetic)")


# math-module replacements (for `from math import log, exp, ...` globals)
def m_log(x):
    return _log(x) if is_sym(x) else math.log(x)


def m_exp(x):
    return _exp(x) if is_sym(x) else math.exp(x)


def m_sqrt(x):
    return _sqrt(x) if is_sym(x) else math.sqrt(x)


def m_isnan(x):
    return False if is_sym(x) else math.isnan(x)


def m_isfinite(x):
    return True if is_sym(x) else math.isfinite(x)


def m_isinf(x):
    return False if is_sym(x) else math.isinf(x)


def m_lgamma(x):
    if is_sym(x):
        return _uf.uf("lgamma", (x,))
    return math.lgamma(x)


def m_fabs(x):
    return abs(x) if is_sym(x) else math.fabs(x)


MATH_REPLACEMENTS = {
    id(math.log): m_log, id(math.exp): m_exp, id(math.sqrt): m_sqrt,
    id(math.isnan): m_isnan, id(math.isfinite): m_isfinite, id(math.isinf): m_isinf,
    id(math.lgamma): m_lgamma, id(math.fabs): m_fabs,
}


def validate():
    """Differential test proxy-vs-NumPy on concrete floats.  Returns #comparisons."""
    npx = NPX()
    n = 0
    vals = [0.0, 1.5, -2.25, math.inf, -math.inf, math.nan, 1e-300, 3.0]
    arr = _np.array(vals)
    oarr = _objectify(arr)
    for name in ("isnan", "isinf", "isfinite"):
        a = getattr(npx, name)(oarr)
        b = getattr(_np, name)(arr)
        assert (a == b).all(), name
        n += len(vals)
    with _np.errstate(all="ignore"):
        for name in ("exp", "log", "sqrt"):
            a = getattr(npx, name)(oarr)
            b = getattr(_np, name)(arr)
            for x, y in zip(a, b):
                assert (x != x and y != y) or x == y or abs(x - y) <= 1e-15 * abs(y), (name, x, y)
                n += 1
    for f, shape in ((npx.zeros, (2, 3)), (npx.ones, 4), (npx.empty, 2)):
        a = f(shape)
        assert a.dtype == object and a.shape == _np.zeros(shape).shape
        n += 1
    assert npx.zeros(3, dtype=_np.int32).dtype == _np.int32
    assert (npx.full(3, 2.5).astype(float) == _np.full(3, 2.5)).all()
    assert npx.full(3, False).dtype == bool
    assert npx.array([1, 2]).dtype.kind == "i"
    assert npx.array([1.0, 2.0]).dtype == object
    n += 4
    a = _objectify(_np.array([1.0, 5.0, 2.0]))
    b = _objectify(_np.array([3.0, 1.0, 2.0]))
    assert list(npx.maximum(a, b)) == [3.0, 5.0, 2.0]
    assert list(npx.minimum(a, b)) == [1.0, 1.0, 2.0]
    assert npx.allclose(a, a) and not npx.allclose(a, b)
    n += 4
    return n
