"""Path exploration context: DFS by re-execution, z3 as the arbiter.

A harness is a function `h(ctx)` that builds symbolic inputs, calls real tsdate code
and states obligations with `ctx.prove(...)`.  `explore(h)` runs it once per path.
"""
import os
import time
from fractions import Fraction

import z3


class PathAbort(BaseException):
    """Base of the path-steering exceptions (never caught by `except Exception`)."""


class Infeasible(PathAbort):
    pass


class PathLimit(PathAbort):
    pass


class Inconclusive(PathAbort):
    pass


CUR = None  # the active context (one per process)


def cur():
    if CUR is None:
        raise RuntimeError("no active symx context")
    return CUR


class Stats:
    def __init__(self):
        self.queries = 0
        self.solver_s = 0.0
        self.unknown = 0
        self.paths = 0
        self.feasible_paths = 0
        self.obligations = 0
        self.discharged = 0
        self.max_terms = 0

    def merge(self, o):
        for k, v in vars(o).items():
            if k == "max_terms":
                self.max_terms = max(self.max_terms, v)
            else:
                setattr(self, k, getattr(self, k) + v)

    def as_dict(self):
        d = dict(vars(self))
        d["solver_s"] = round(d["solver_s"], 3)
        return d


class Obligation:
    __slots__ = ("name", "status", "model", "path", "detail")

    def __init__(self, name, status, model=None, path=None, detail=None):
        self.name = name
        self.status = status      # 'unsat' (holds) | 'sat' (counterexample) | 'unknown'
        self.model = model
        self.path = path
        self.detail = detail


def _fp_to_float(v):
    import math
    if v.isNaN():
        return math.nan
    if v.isInf():
        return -math.inf if v.isNegative() else math.inf
    if v.isZero():
        return -0.0 if v.isNegative() else 0.0
    sgn = -1.0 if v.isNegative() else 1.0
    sig = v.significand_as_long()
    sb = v.sbits() - 1
    if v.isSubnormal():
        return sgn * math.ldexp(sig, -1022 - sb)
    e = v.exponent_as_long(biased=False)
    return sgn * math.ldexp((1 << sb) + sig, e - sb)


def _model_env(model):
    env = {}
    if model is None:
        return env
    for d in model.decls():
        v = model[d]
        try:
            if z3.is_rational_value(v):
                env[d.name()] = Fraction(v.numerator_as_long(), v.denominator_as_long())
            elif z3.is_algebraic_value(v):
                a = v.approx(30)
                env[d.name()] = Fraction(a.numerator_as_long(), a.denominator_as_long())
            elif z3.is_fp(v):
                env[d.name()] = _fp_to_float(v)
            elif z3.is_true(v) or z3.is_false(v):
                env[d.name()] = bool(z3.is_true(v))
            else:
                env[d.name()] = str(v)
        except Exception:
            env[d.name()] = str(v)
    return env


class Ctx:
    def __init__(self, qtimeout_ms=10000, max_paths=20000, max_decisions=5000,
                 div0="numpy", shard=None):
        # shard=(index, depth): explore only the paths whose first `depth` genuine forks take
        # the sides given by the bits of `index` (the 2^depth shards partition the path space)
        self.shard = shard
        self.ptimeout_ms = max(qtimeout_ms * 6, 60000)   # obligations get a longer budget
        self.qtimeout_ms = qtimeout_ms
        self.max_paths = max_paths
        self.max_decisions = max_decisions
        self.div0 = div0           # 'numpy' (inf/nan) or 'raise' (ZeroDivisionError)
        self.stats = Stats()
        self.base = []             # assumptions shared by all paths (variable domains)
        self.results = []          # Obligation records
        self.samples = []          # a few path descriptions for evidence
        self.events = []           # (path, kind, text) : exceptions etc.
        self.tags = {}             # branch-coverage tags -> count of feasible paths
        self._base_names = set()
        from . import poly as _poly
        _poly.reset_vars()
        self._reset_path([])

    def base_once(self, name, formula):
        if name not in self._base_names:
            self._base_names.add(name)
            self.base.append(formula)

    # ------------------------------------------------------------ path state
    def _reset_path(self, prefix):
        self.prefix = prefix
        self.pos = 0
        self.trail = []            # (bool, forced)
        self.pc = []               # z3 formulas
        self.signs = {}            # Poly -> set of facts ('pos','neg','nonneg','nonpos','nonzero','zero')
        self.model = None
        self.model_ok = False
        self.alts = []
        self.unknown_on_path = False
        self.fresh_counters = {}
        self.nforks = 0
        self.path_tags = set()
        self.uf_memo = {}
        self.notes = []

    def fresh_name(self, prefix):
        n = self.fresh_counters.get(prefix, 0)
        self.fresh_counters[prefix] = n + 1
        return f"{prefix}{n}"

    def tag(self, t):
        self.path_tags.add(t)

    def note(self, s):
        self.notes.append(s)

    # ------------------------------------------------------------ solver
    def _check(self, extra=(), timeout_ms=None):
        s = z3.Solver()
        s.set("timeout", timeout_ms or self.qtimeout_ms)
        fs = list(self.base) + list(self.pc) + list(extra)
        if fs:
            s.add(*fs)
        t0 = time.time()
        r = s.check()
        dt = time.time() - t0
        self.stats.queries += 1
        self.stats.solver_s += dt
        if dt > 5 and os.environ.get("SYMX_SLOW"):
            with open(os.environ["SYMX_SLOW"], "a") as fh:
                fh.write(f"--- {dt:.1f}s {r} decisions={len(self.trail)}\n{s.sexpr()}\n")
        if r == z3.sat:
            return "sat", s.model()
        if r == z3.unsat:
            return "unsat", None
        self.stats.unknown += 1
        return "unknown", None

    def _second_opinion(self, negated_claim):
        """z3 said unknown on an obligation: retry with the nlsat tactic directly, then give up
        (never reported as success)."""
        try:
            g = z3.Goal()
            g.add(*(list(self.base) + list(self.pc) + [negated_claim]))
            t = z3.TryFor(z3.Then("simplify", "purify-arith", "qfnra-nlsat"), self.ptimeout_ms)
            s = t.solver()
            s.add(*(list(self.base) + list(self.pc) + [negated_claim]))
            t0 = time.time()
            r = s.check()
            self.stats.queries += 1
            self.stats.solver_s += time.time() - t0
            if r == z3.unsat:
                self.stats.unknown -= 1
                return "unsat", None
            if r == z3.sat:
                self.stats.unknown -= 1
                return "sat", s.model()
        except Exception:
            pass
        return "unknown", None

    def _eval_model(self, z):
        if not self.model_ok or self.model is None:
            return None
        try:
            v = self.model.eval(z, model_completion=True)
        except Exception:
            return None
        if z3.is_true(v):
            return True
        if z3.is_false(v):
            return False
        return None

    def _record_atom(self, atom, taken):
        # atom = (poly, rel) meaning "poly rel 0"; remember sign facts on this path
        if atom is None:
            return
        p, rel = atom
        if not taken:
            rel = {"<": ">=", "<=": ">", ">": "<=", ">=": "<", "==": "!=", "!=": "=="}[rel]
        fact = {"<": "neg", "<=": "nonpos", ">": "pos", ">=": "nonneg",
                "==": "zero", "!=": "nonzero"}[rel]
        self.signs.setdefault(p, set()).add(fact)

    def sign_facts(self, p):
        return self.signs.get(p, ())

    def assume(self, cond, atom=None):
        """Add a precondition to the path condition."""
        from .dom import SymBool
        if isinstance(cond, SymBool):
            atom = cond.atom if atom is None else atom
            cond = cond.z
        if cond is True or (hasattr(cond, "dtype") and bool(cond) is True):
            return
        if cond is False:
            raise Infeasible()
        ev = self._eval_model(cond)
        if ev is not True:
            self.model_ok = False
        self.pc.append(cond)
        self._record_atom(atom, True)

    def decide(self, z, atom=None):
        """Branch on the z3 Boolean `z`; returns the Python bool for this path."""
        if len(self.trail) >= self.max_decisions:
            raise PathLimit("too many decisions on one path")
        if self.pos < len(self.prefix):
            b, forced = self.prefix[self.pos]
            self.pos += 1
            self.trail.append((b, forced))
            if not forced:
                self.nforks += 1
                self.pc.append(z if b else z3.Not(z))
                self.model_ok = False
            self._record_atom(atom, b)
            return b
        self.pos += 1
        if not self.model_ok:
            r, m = self._check()
            if r == "unsat":
                raise Infeasible()
            if r == "sat":
                self.model, self.model_ok = m, True
            else:
                self.unknown_on_path = True
        ev = self._eval_model(z)
        nz = z3.Not(z)
        if ev is True:
            can_t = True
            r, m = self._check([nz])
            can_f = r != "unsat"
            if r == "unknown":
                self.unknown_on_path = True
        elif ev is False:
            can_f = True
            r, m = self._check([z])
            can_t = r != "unsat"
            if r == "unknown":
                self.unknown_on_path = True
        else:
            r1, m1 = self._check([z])
            r2, m2 = self._check([nz])
            can_t, can_f = r1 != "unsat", r2 != "unsat"
            if "unknown" in (r1, r2):
                self.unknown_on_path = True
            if r1 == "sat":
                self.model, self.model_ok = m1, True
                ev = True
            elif r2 == "sat":
                self.model, self.model_ok = m2, True
                ev = False
        if can_t and can_f:
            if self.shard is not None and self.nforks < self.shard[1]:
                b = bool((self.shard[0] >> self.nforks) & 1)
                if ev is not b:
                    self.model_ok = False
            else:
                # follow the side the current model satisfies (keeps the model valid)
                b = True if ev is None else ev
                self.alts.append(self.trail + [(not b, False)])
                if ev is None:
                    self.model_ok = False
            self.nforks += 1
            self.trail.append((b, False))
            self.pc.append(z if b else nz)
        elif can_t or can_f:
            b = can_t
            self.trail.append((b, True))
            # implied by pc: no need to add
        else:
            raise Infeasible()
        self._record_atom(atom, b)
        return b

    def feasible(self):
        """Reachability twin: is the current path condition satisfiable?"""
        if self.model_ok:
            return "sat"
        r, m = self._check()
        if r == "sat":
            self.model, self.model_ok = m, True
        return r

    def witness(self):
        if self.feasible() == "sat":
            return _model_env(self.model)
        return None

    # ------------------------------------------------------------ obligations
    def prove(self, name, claim, detail=None):
        """Obligation: `claim` holds for all inputs on this path."""
        from .dom import SymBool
        self.stats.obligations += 1
        if isinstance(claim, SymBool):
            claim = claim.z
        if claim is True or (not z3.is_expr(claim) and bool(claim)):
            self.stats.discharged += 1
            self.results.append(Obligation(name, "unsat", path=len(self.trail)))
            return "unsat"
        if claim is False or not z3.is_expr(claim):
            r, m = self._check()
            if r == "unsat":
                self.stats.discharged += 1
                self.results.append(Obligation(name, "unsat"))
                return "unsat"
            st = "sat" if r == "sat" else "unknown"
            self.results.append(Obligation(name, st, _model_env(m), list(self.trail), detail))
            return st
        r, m = self._check([z3.Not(claim)], timeout_ms=self.ptimeout_ms)
        if r == "unknown":
            r, m = self._second_opinion(z3.Not(claim))
        if r == "unsat":
            self.stats.discharged += 1
            self.results.append(Obligation(name, "unsat"))
        elif r == "sat":
            self.results.append(Obligation(name, "sat", _model_env(m), list(self.trail), detail))
        else:
            self.results.append(Obligation(name, "unknown", None, list(self.trail), detail))
        return r

    def prove_all(self, items, detail=None):
        """Obligations [(name, claim)] discharged with ONE query when they all hold; falls
        back to one query each otherwise (so counterexamples stay per obligation)."""
        from .dom import SymBool
        zs, trivial = [], []
        for name, claim in items:
            c = claim.z if isinstance(claim, SymBool) else claim
            if c is True or (not z3.is_expr(c) and bool(c)):
                trivial.append(name)
            else:
                zs.append((name, claim, c))
        for name in trivial:
            self.stats.obligations += 1
            self.stats.discharged += 1
            self.results.append(Obligation(name, "unsat"))
        if not zs:
            return "unsat"
        if all(z3.is_expr(c) for _, _, c in zs) and len(zs) > 1:
            r, m = self._check([z3.Not(z3.And(*[c for _, _, c in zs]))],
                               timeout_ms=self.ptimeout_ms)
            if r == "unsat":
                for name, _, _ in zs:
                    self.stats.obligations += 1
                    self.stats.discharged += 1
                    self.results.append(Obligation(name, "unsat"))
                return "unsat"
        worst = "unsat"
        for name, claim, _ in zs:
            r = self.prove(name, claim, detail)
            if r != "unsat":
                worst = r if worst == "unsat" or r == "sat" else worst
        return worst

    def fail(self, name, detail=None):
        """The path itself is a violation if it is feasible (e.g. an assertion fired)."""
        return self.prove(name, False, detail)


def explore(harness, ctx=None, **kw):
    """Run `harness(ctx)` on every feasible path.  Returns the context."""
    global CUR
    ctx = ctx or Ctx(**kw)
    prev = CUR
    CUR = ctx
    try:
        stack = [[]]
        while stack:
            if ctx.stats.paths >= ctx.max_paths:
                ctx.events.append((None, "limit", f"max_paths={ctx.max_paths} reached"))
                ctx.exhausted = False
                break
            prefix = stack.pop()
            ctx._reset_path(prefix)
            ctx.stats.paths += 1
            try:
                harness(ctx)
                f = ctx.feasible()
                if f == "sat":
                    ctx.stats.feasible_paths += 1
                    for t in ctx.path_tags:
                        ctx.tags[t] = ctx.tags.get(t, 0) + 1
                    if len(ctx.samples) < 3:
                        ctx.samples.append({
                            "decisions": len(ctx.trail),
                            "path_condition": [str(f)[:200] for f in ctx.pc[:12]],
                            "witness": {k: float(v) if isinstance(v, Fraction) else v
                                        for k, v in list(_model_env(ctx.model).items())[:12]},
                            "notes": ctx.notes[:8],
                        })
                elif f == "unknown":
                    ctx.events.append((list(ctx.trail), "unknown-path", "feasibility unknown"))
            except Infeasible:
                pass
            except PathLimit as e:
                ctx.events.append((list(ctx.trail), "limit", str(e)))
                ctx.exhausted = False
            stack.extend(ctx.alts)
        else:
            if not hasattr(ctx, "exhausted"):
                ctx.exhausted = True
    finally:
        CUR = prev
    if not hasattr(ctx, "exhausted"):
        ctx.exhausted = False
    return ctx
