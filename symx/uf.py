"""Memoised uninterpreted functions standing in for transcendental callees.

Soundness rule (DESIGN.md 2.5): a stub may only make the analysed behaviours a
superset of the real ones.  A UF application with syntactically equal arguments
returns the same symbol; with `strict=True` the functional-consistency axiom
(args equal => results equal) is also asserted against every earlier application.
"""
import math
from fractions import Fraction

import z3

from . import ctx as _ctx
from .dom import Q, LogQ, lift_number, sym, _is_num


def _key(a):
    if isinstance(a, Q):
        return ("Q", a.key())
    if isinstance(a, LogQ):
        return ("L", a.q.key())
    if _is_num(a):
        f = float(a)
        if f != f or f in (math.inf, -math.inf):
            return ("F", repr(f))
        return ("Q", Q(lift_number(a)).key())
    return ("O", repr(a))


def _q_eq_formula(a, b):
    """z3 formula for a == b (numerators cross-multiplied; denominators are non-zero)."""
    a, b = Q.of(a), Q.of(b)
    d = a._add(-b)
    r = d.rel0("==")
    from .dom import z3bool
    return z3bool(r)


def _pow_axiom(r, base, k):
    """r = base^(p/q)  =>  r^q = base^p   (small q only)"""
    try:
        kk = lift_number(k) if not isinstance(k, Fraction) else k
    except Exception:
        return
    if kk.denominator in (2, 3, 4) and abs(kk.numerator) <= 4:
        lhs = r ** kk.denominator
        rhs = Q.of(base) ** abs(kk.numerator)
        if kk.numerator < 0:
            rhs = Q(Fraction(1))._mul(rhs._inv())
        from .dom import z3bool
        _ctx.cur().assume(z3bool((lhs._add(-rhs)).rel0("==")))


def uf(name, args, sign=None, strict=False, kind="Q"):
    """Apply uninterpreted function `name` to `args`; returns a Q symbol (or LogQ)."""
    cx = _ctx.cur()
    memo = cx.uf_memo.setdefault(name, [])
    k = tuple(_key(a) for a in args)
    for kk, aa, res in memo:
        if kk == k:
            return res
    v = sym(cx.fresh_name(f"uf_{name}_"), sign)
    if strict:
        for kk, aa, res in memo:
            if all(x[0] == "Q" for x in kk) and all(x[0] == "Q" for x in k):
                eqs = [_q_eq_formula(x, y) for x, y in zip(aa, args)]
                cx.assume(z3.Implies(z3.And(*eqs), _q_eq_formula(res, v)))
    memo.append((k, tuple(args), v))
    return v


def sym_exp(x):
    if isinstance(x, LogQ):
        return x.q
    if _is_num(x):
        return math.exp(float(x))
    if x.c == 0:
        return Q(Fraction(1))
    return uf("exp", (x,), sign="pos")


def sym_log(x):
    if isinstance(x, Q):
        return LogQ.of_q(x)
    if isinstance(x, LogQ):
        raise NotImplementedError("log(log(.))")
    f = float(x)
    if f == 0:
        return -math.inf
    if f < 0:
        return math.nan
    return math.log(f)


def sym_sqrt(x):
    if _is_num(x):
        return math.sqrt(float(x))
    cx = _ctx.cur()
    memo = cx.uf_memo.setdefault("sqrt", [])
    k = _key(x)
    for kk, _, res in memo:
        if kk == k:
            return res
    w = sym(cx.fresh_name("sqrt_"), "nonneg")
    # w >= 0 and w*w == x
    d = (w * w)._add(-Q.of(x))
    from .dom import z3bool
    cx.assume(z3bool(d.rel0("==")))
    memo.append((k, (x,), w))
    return w


def sym_pow(base, k):
    if _is_num(base) and _is_num(k):
        return float(base) ** float(k)
    if isinstance(k, Q) and k.is_const():
        k = k.c
    if _is_num(k):
        kk = lift_number(k)
        if kk.denominator == 1:
            return Q.of(base) ** int(kk)
    b = Q.of(base)
    if b.c == 0:
        return Q(Fraction(0))
    if b.is_const() and b.c == 1:
        return Q(Fraction(1))
    # multiplicative decomposition over factors that are positive by inspection:
    # (c * prod f_i^e_i)^k = c^k * prod (f_i^k)^e_i   (valid for positive factors only)
    if b.c > 0 and all(f.trivial_sign() == "pos" for f in list(b.n) + list(b.d)) \
            and (len(b.n) + len(b.d) > 1 or b.c != 1
                 or any(e != 1 for e in list(b.n.values()) + list(b.d.values())) or b.d):
        r = Q(Fraction(1))
        if b.c != 1:
            r = r * uf("powc", (Q(b.c), k), sign="pos")
        cx = _ctx.cur()
        for src, inv in ((b.n, False), (b.d, True)):
            for f, e in src.items():
                n0 = len(cx.uf_memo.get("pow", ()))
                base_f = Q(Fraction(1), {f: 1})
                u = uf("pow", (base_f, k), sign="pos")
                if len(cx.uf_memo["pow"]) > n0:
                    _pow_axiom(u, base_f, k)
                r = (r / (u ** e)) if inv else (r * u ** e)
        return r
    if b.c > 0 and len(b.n) == 1 and not b.d and b.c == 1 and \
            next(iter(b.n)).trivial_sign() == "pos":
        cx = _ctx.cur()
        n0 = len(cx.uf_memo.get("pow", ()))
        u = uf("pow", (b, k), sign="pos")
        if len(cx.uf_memo["pow"]) > n0:
            _pow_axiom(u, b, k)
        return u
    cx = _ctx.cur()
    n0 = len(cx.uf_memo.get("pow", ()))
    r = uf("pow", (b, k), sign="nonneg")
    if len(cx.uf_memo["pow"]) > n0:   # new application: r == 0 <=> b == 0
        from .dom import z3bool
        cx.assume(z3bool(r.rel0("==")) == z3bool(b.rel0("==")))
    return r
