"""Import the real tsdate modules from the working tree in NUMBA_DISABLE_JIT mode and
swap their numeric environment for the symbolic-aware proxy (by identity, not name)."""
import contextlib
import importlib
import math
import os
import sys
import types

REPO = os.environ.get("VERIF_REPO", "/repo")


def ensure_env():
    if "numba" in sys.modules and os.environ.get("NUMBA_DISABLE_JIT") != "1":
        raise RuntimeError("numba imported before NUMBA_DISABLE_JIT=1 was set")
    os.environ["NUMBA_DISABLE_JIT"] = "1"
    os.environ.setdefault("TSDATE_VERIF", "1")
    if REPO not in sys.path:
        sys.path.insert(0, REPO)


def tsdate_module(name):
    """Import tsdate.<name> from REPO (JIT disabled) and check where it came from."""
    ensure_env()
    mod = importlib.import_module("tsdate." + name if name else "tsdate")
    f = os.path.realpath(mod.__file__)
    if not f.startswith(os.path.realpath(REPO) + os.sep):
        raise RuntimeError(f"tsdate.{name} imported from {f}, not from {REPO}")
    return mod


@contextlib.contextmanager
def patched(*mods, extra=None):
    """Replace numpy / math callables in the module globals by symbolic-aware ones.

    `extra`: {module: {global_name: replacement}} for per-harness stubs.  A name in
    `extra` that does not exist in the module is a harness error (KeyError)."""
    import numpy as real_np
    from .npx import NPX, MATH_REPLACEMENTS
    npx = NPX()
    saved = []
    try:
        for mod in mods:
            for k, v in list(vars(mod).items()):
                if v is real_np:
                    saved.append((mod, k, v))
                    setattr(mod, k, npx)
                elif id(v) in MATH_REPLACEMENTS and isinstance(
                        v, (types.BuiltinFunctionType, types.FunctionType)):
                    saved.append((mod, k, v))
                    setattr(mod, k, MATH_REPLACEMENTS[id(v)])
        for mod, repl in (extra or {}).items():
            for k, v in repl.items():
                if not hasattr(mod, k):
                    raise KeyError(f"harness stub target {mod.__name__}.{k} does not exist")
                saved.append((mod, k, getattr(mod, k)))
                setattr(mod, k, v)
        yield npx
    finally:
        for mod, k, v in reversed(saved):
            setattr(mod, k, v)
