"""Symbolic scalar domains: Q (factored rational functions over named reals),
LogQ (log of a Q), SymBool (z3 Boolean that forks on bool()).
"""
import math
import numbers
from fractions import Fraction

import numpy as np
import z3

from . import ctx as _ctx
from .poly import Poly, var_sign

_ONE = Poly.const(1)


def lift_number(x):
    """Exact rational for a Python/NumPy number; floats by shortest decimal repr."""
    if isinstance(x, Fraction):
        return x
    if isinstance(x, (bool, np.bool_)):
        return Fraction(int(x))
    if isinstance(x, numbers.Integral):
        return Fraction(int(x))
    if isinstance(x, (float, np.floating)):
        x = float(x)
        if x != x or x in (math.inf, -math.inf):
            raise ValueError("non-finite")
        return Fraction(repr(x))
    raise TypeError(type(x))


def _is_num(x):
    return isinstance(x, (numbers.Real, np.floating, np.integer, np.bool_, Fraction)) \
        and not isinstance(x, (Q, LogQ))


# --------------------------------------------------------------------- SymBool

class SymBool:
    __slots__ = ("z", "atom")

    def __init__(self, z, atom=None):
        self.z = z
        self.atom = atom

    def __bool__(self):
        return _ctx.cur().decide(self.z, self.atom)

    def __and__(self, o):
        if isinstance(o, SymBool):
            return SymBool(z3.And(self.z, o.z))
        return self if o else False

    __rand__ = __and__

    def __or__(self, o):
        if isinstance(o, SymBool):
            return SymBool(z3.Or(self.z, o.z))
        return True if o else self

    __ror__ = __or__

    def __invert__(self):
        return SymBool(z3.Not(self.z))

    def __repr__(self):
        return f"SymBool({self.z})"


def z3bool(b):
    if isinstance(b, SymBool):
        return b.z
    if z3.is_expr(b):
        return b
    return z3.BoolVal(bool(b))


def And(*bs):
    bs = [b for b in bs if b is not True]
    if any(b is False for b in bs):
        return False
    if not bs:
        return True
    return SymBool(z3.And(*[z3bool(b) for b in bs]))


def Or(*bs):
    bs = [b for b in bs if b is not False]
    if any(b is True for b in bs):
        return True
    if not bs:
        return False
    return SymBool(z3.Or(*[z3bool(b) for b in bs]))


def Not(b):
    if isinstance(b, SymBool):
        return SymBool(z3.Not(b.z))
    return not b


def Implies(a, b):
    return Or(Not(a), b)


# --------------------------------------------------------------------- Q

_FLIP = {"<": ">", "<=": ">=", ">": "<", ">=": "<=", "==": "==", "!=": "!="}


def _poly_sign(p):
    """Known sign facts about polynomial p on the current path."""
    s = p.trivial_sign()
    if s in ("pos", "neg", "zero"):
        return s
    facts = set(_ctx.CUR.sign_facts(p)) if _ctx.CUR is not None else set()
    if s:
        facts.add(s)
    if "pos" in facts or ("nonneg" in facts and "nonzero" in facts):
        return "pos"
    if "neg" in facts or ("nonpos" in facts and "nonzero" in facts):
        return "neg"
    if "zero" in facts or ("nonneg" in facts and "nonpos" in facts):
        return "zero"
    if "nonneg" in facts:
        return "nonneg"
    if "nonpos" in facts:
        return "nonpos"
    if "nonzero" in facts:
        return "nonzero"
    return None


def _atom(p, rel):
    z = p.z3()
    zero = z3.RealVal(0)
    return {"<": z < zero, "<=": z <= zero, ">": z > zero, ">=": z >= zero,
            "==": z == zero, "!=": z != zero}[rel]


class Q:
    """coef * prod(n_i^a_i) / prod(d_j^b_j); factors are primitive Polys."""
    __slots__ = ("c", "n", "d", "_k")
    __array_priority__ = None

    def __init__(self, c, n=None, d=None):
        self.c = c
        self.n = n or {}
        self.d = d or {}
        self._k = None

    # -- construction
    @staticmethod
    def of(x):
        if isinstance(x, Q):
            return x
        if isinstance(x, Poly):
            return Q.from_poly(x)
        return Q(lift_number(x))

    @staticmethod
    def from_poly(p):
        if p.is_zero():
            return Q(Fraction(0))
        if p.is_const():
            return Q(p.const_value())
        g = p.monomial_gcd()
        n = {}
        if g:
            p = p.div_monomial(g)
            for v, e in g:
                n[Poly({((v, 1),): Fraction(1)})] = e
        c, prim = p.primitive()
        if not prim.is_const():
            n[prim] = n.get(prim, 0) + 1
        return Q(c, n)

    @staticmethod
    def var(name, sign=None):
        return Q(Fraction(1), {Poly.var(name, sign): 1})

    def key(self):
        if self._k is None:
            self._k = (self.c, frozenset(self.n.items()), frozenset(self.d.items()))
        return self._k

    def __hash__(self):
        return hash(self.key())

    def is_zero(self):
        return self.c == 0

    def is_const(self):
        return not self.n and not self.d

    def const_value(self):
        assert self.is_const()
        return self.c

    def num_poly(self):
        p = Poly.const(self.c)
        for f, e in self.n.items():
            p = p * f ** e
        return p

    def den_poly(self):
        p = _ONE
        for f, e in self.d.items():
            p = p * f ** e
        return p

    # -- multiplicative structure
    def _mul(self, o):
        c = self.c * o.c
        if c == 0:
            return Q(Fraction(0))
        n = dict(self.n)
        d = dict(self.d)
        for f, e in o.n.items():
            n[f] = n.get(f, 0) + e
        for f, e in o.d.items():
            d[f] = d.get(f, 0) + e
        for f in [f for f in n if f in d]:
            k = min(n[f], d[f])
            n[f] -= k
            d[f] -= k
            if not n[f]:
                del n[f]
            if not d[f]:
                del d[f]
        return Q(c, n, d)

    def _inv(self):
        return Q(1 / self.c, dict(self.d), dict(self.n))

    def _add(self, o):
        if self.c == 0:
            return o
        if o.c == 0:
            return self
        # common denominator: max exponents
        L = dict(self.d)
        for f, e in o.d.items():
            if L.get(f, 0) < e:
                L[f] = e
        # common numerator factors are pulled out to keep polynomials small
        common = {}
        for f, e in self.n.items():
            k = min(e, o.n.get(f, 0))
            if k:
                common[f] = k

        def cofactor(x):
            p = Poly.const(x.c)
            for f, e in x.n.items():
                e -= common.get(f, 0)
                if e:
                    p = p * f ** e
            for f, e in L.items():
                k = e - x.d.get(f, 0)
                if k:
                    p = p * f ** k
            return p

        num = cofactor(self) + cofactor(o)
        if num.is_zero():
            return Q(Fraction(0))
        cx = _ctx.CUR
        if cx is not None and num.nterms() > cx.stats.max_terms:
            cx.stats.max_terms = num.nterms()
        # try to cancel denominator factors that divide the new numerator
        L = dict(L)
        if num.nterms() <= 4000:
            for f in list(L):
                while L.get(f, 0) > 0:
                    q = num.divide_exact(f) if f.nterms() <= num.nterms() else None
                    if q is None:
                        break
                    num = q
                    L[f] -= 1
                    if not L[f]:
                        del L[f]
        r = Q.from_poly(num)
        return r._mul(Q(Fraction(1), common, L))

    # -- Python operators
    def _coerce(self, o):
        if isinstance(o, Q):
            return o
        if isinstance(o, np.ndarray):
            return None
        if isinstance(o, LogQ):
            return None
        if _is_num(o):
            try:
                return Q(lift_number(o))
            except ValueError:
                return o  # nan / inf stay floats
        return None

    def __add__(self, o):
        o = self._coerce(o)
        if o is None:
            return NotImplemented
        if isinstance(o, float):
            return o  # nan/inf absorb
        return self._add(o)

    __radd__ = __add__

    def __neg__(self):
        return Q(-self.c, self.n, self.d)

    def __pos__(self):
        return self

    def __sub__(self, o):
        o = self._coerce(o)
        if o is None:
            return NotImplemented
        if isinstance(o, float):
            return -o
        return self._add(-o)

    def __rsub__(self, o):
        o = self._coerce(o)
        if o is None:
            return NotImplemented
        if isinstance(o, float):
            return o
        return o._add(-self)

    def __mul__(self, o):
        o = self._coerce(o)
        if o is None:
            return NotImplemented
        if isinstance(o, float):
            return _nonfinite_times(o, self)
        return self._mul(o)

    __rmul__ = __mul__

    def __truediv__(self, o):
        o = self._coerce(o)
        if o is None:
            return NotImplemented
        if isinstance(o, float):
            if o != o:
                return o
            return Q(Fraction(0))  # finite / inf
        return _divide(self, o)

    def __rtruediv__(self, o):
        o = self._coerce(o)
        if o is None:
            return NotImplemented
        if isinstance(o, float):
            return _divide_nonfinite_by(o, self)
        return _divide(o, self)

    def __pow__(self, k):
        if isinstance(k, Q) and k.is_const():
            k = k.c
        if isinstance(k, (float, np.floating)) and float(k).is_integer():
            k = int(k)
        if isinstance(k, Fraction) and k.denominator == 1:
            k = int(k)
        if isinstance(k, (int, np.integer)):
            k = int(k)
            if k >= 0:
                return Q(self.c ** k, {f: e * k for f, e in self.n.items()},
                         {f: e * k for f, e in self.d.items()}) if k else Q(Fraction(1))
            return _divide(Q(Fraction(1)), self ** (-k))
        from .uf import sym_pow
        return sym_pow(self, k)

    def __rpow__(self, base):
        from .uf import sym_pow
        return sym_pow(base, self)

    def __abs__(self):
        return -self if (self < 0) else self

    def __float__(self):
        if self.is_const():
            return float(self.c)
        raise TypeError("symbolic value has no float()")

    def __int__(self):
        if self.is_const() and self.c.denominator == 1:
            return int(self.c)
        raise TypeError("symbolic value has no int()")

    __index__ = __int__

    # numpy object-dtype ufunc hooks
    def exp(self):
        from .uf import sym_exp
        return sym_exp(self)

    def log(self):
        return LogQ.of_q(self)

    def sqrt(self):
        from .uf import sym_sqrt
        return sym_sqrt(self)

    def conjugate(self):
        return self

    # -- comparisons against zero
    def rel0(self, rel):
        """SymBool/bool for `self rel 0`."""
        if self.c == 0:
            return rel in ("<=", ">=", "==")
        base_neg = self.c < 0
        lits = []          # polys whose negativity flips the sign
        zeros = []         # polys that may vanish (numerator only)
        for src, isnum in ((self.n, True), (self.d, False)):
            for f, e in src.items():
                s = _poly_sign(f)
                if s == "zero":
                    if isnum:
                        return rel in ("<=", ">=", "==")
                    raise ZeroDivisionError("denominator is zero on this path")
                odd = e % 2 == 1
                if s == "pos":
                    continue
                if s == "neg":
                    if odd:
                        base_neg = not base_neg
                    continue
                if isnum and s != "nonzero":
                    zeros.append(f)
                if odd:
                    if s == "nonneg":
                        continue
                    if s == "nonpos":
                        base_neg = not base_neg
                        continue
                    lits.append(f)
        if not lits and not zeros:
            neg = base_neg
            return {"<": neg, "<=": neg, ">": not neg, ">=": not neg,
                    "==": False, "!=": True}[rel]
        if rel == "==" or rel == "!=":
            if not zeros:
                return rel == "!="
            if len(zeros) == 1:
                return SymBool(_atom(zeros[0], rel), (zeros[0], rel))
            z = z3.Or(*[_atom(f, "==") for f in zeros])
            return SymBool(z if rel == "==" else z3.Not(z))
        if len(lits) == 1 and all(f is lits[0] or f == lits[0] for f in zeros):
            r = _FLIP[rel] if base_neg else rel
            f = lits[0]
            if not zeros:
                # f cannot vanish: strictness is irrelevant
                r = {"<=": "<", ">=": ">"}.get(r, r)
            return SymBool(_atom(f, r), (f, r))
        if not lits:
            # sign fixed, only zero-ness is open
            z = z3.Or(*[_atom(f, "==") for f in zeros])
            neg = base_neg
            if rel == "<":
                return SymBool(z3.Not(z)) if neg else False
            if rel == ">":
                return False if neg else SymBool(z3.Not(z))
            if rel == "<=":
                return True if neg else SymBool(z)
            return SymBool(z) if neg else True
        par = None
        for f in lits:
            a = _atom(f, "<")
            par = a if par is None else z3.Xor(par, a)
        if base_neg:
            par = z3.Not(par)
        isz = z3.Or(*[_atom(f, "==") for f in zeros]) if zeros else z3.BoolVal(False)
        zz = {"<": z3.And(z3.Not(isz), par), ">": z3.And(z3.Not(isz), z3.Not(par)),
              "<=": z3.Or(isz, par), ">=": z3.Or(isz, z3.Not(par))}[rel]
        return SymBool(zz)

    def _cmp(self, o, rel):
        if isinstance(o, np.ndarray):
            return NotImplemented
        if isinstance(o, LogQ):
            return NotImplemented
        if _is_num(o):
            f = float(o)
            if f != f:
                return rel == "!="
            if f == math.inf:
                return rel in ("<", "<=", "!=")
            if f == -math.inf:
                return rel in (">", ">=", "!=")
            if f == 0:
                return self.rel0(rel)
            o = Q(lift_number(o))
        if not isinstance(o, Q):
            return NotImplemented
        return self._add(-o).rel0(rel)

    def __lt__(self, o):
        return self._cmp(o, "<")

    def __le__(self, o):
        return self._cmp(o, "<=")

    def __gt__(self, o):
        return self._cmp(o, ">")

    def __ge__(self, o):
        return self._cmp(o, ">=")

    def __eq__(self, o):
        return self._cmp(o, "==")

    def __ne__(self, o):
        return self._cmp(o, "!=")

    def __bool__(self):
        return bool(self != 0)

    # -- evaluation
    def eval(self, env):
        """Exact value under env: var-name -> Fraction."""
        from .poly import var_name
        class _E(dict):
            def __missing__(s, i):
                return env.get(var_name(i), Fraction(0))
        e = _E()
        v = self.c
        for f, k in self.n.items():
            v = v * f.eval(e) ** k
        for f, k in self.d.items():
            v = v / f.eval(e) ** k
        return v

    def z3(self):
        """z3 term (uses division; for display / last-resort only)."""
        t = z3.RealVal(str(self.c))
        for f, e in self.n.items():
            for _ in range(e):
                t = t * f.z3()
        for f, e in self.d.items():
            for _ in range(e):
                t = t / f.z3()
        return t

    def __repr__(self):
        def fs(d):
            return "*".join(f"({f})" + ("" if e == 1 else f"^{e}") for f, e in d.items())
        s = str(self.c)
        if self.n:
            s += "*" + fs(self.n)
        if self.d:
            s += "/" + fs(self.d)
        return s if len(s) < 300 else s[:300] + "..."


def _nonfinite_times(f, q):
    if f != f:
        return f
    if q.c == 0:
        return math.nan
    return f if (q > 0) else (-f if (q < 0) else math.nan)


def _divide_nonfinite_by(f, q):
    if f != f:
        return f
    if (q > 0):
        return f
    if (q < 0):
        return -f
    return f  # inf / 0 = inf (numpy)


def _divide(a, b):
    """a / b with a fork on b == 0 (numpy semantics or ZeroDivisionError)."""
    if b.c == 0:
        return _div_by_zero(a)
    iz = b.rel0("==")
    if iz is not False and bool(iz):
        return _div_by_zero(a)
    return a._mul(b._inv())


def _div_by_zero(a):
    cx = _ctx.cur()
    if cx.div0 == "raise":
        raise ZeroDivisionError("symbolic division by zero")
    cx.tag("div0")
    if a.c == 0:
        return math.nan
    if (a == 0):
        return math.nan
    return math.inf if (a > 0) else -math.inf


# --------------------------------------------------------------------- LogQ

class LogQ:
    """log(q) for a Q with q >= 0 on the path (q == 0 <=> -inf)."""
    __slots__ = ("q",)
    __array_priority__ = None

    def __init__(self, q):
        self.q = q

    @staticmethod
    def of_q(q):
        q = Q.of(q)
        if q.c == 0:
            return -math.inf
        if q.is_const() and q.c == 1:
            return 0.0
        if q.is_const() and q.c < 0:
            return math.nan
        return LogQ(q)

    @staticmethod
    def _lift(o):
        if isinstance(o, LogQ):
            return o.q
        if isinstance(o, Q) and o.is_const():
            o = float(o.c)      # e.g. a symbolic span fraction times the log-value 0.0
        if isinstance(o, np.ndarray) or isinstance(o, Q):
            return None
        if _is_num(o):
            f = float(o)
            if f == 0.0:
                return Q(Fraction(1))
            if f == -math.inf:
                return Q(Fraction(0))
            if f != f or f == math.inf:
                return f
            raise NotImplementedError(f"LogQ arithmetic with finite non-zero float {f}")
        return None

    def __add__(self, o):
        oq = self._lift(o)
        if oq is None:
            return NotImplemented
        if isinstance(oq, float):
            return oq
        return LogQ.of_q(self.q._mul(oq))

    __radd__ = __add__

    def __sub__(self, o):
        oq = self._lift(o)
        if oq is None:
            return NotImplemented
        if isinstance(oq, float):
            return -oq
        if oq.c == 0:   # x - (-inf)
            return math.nan if (self.q == 0) else math.inf
        if (oq == 0):
            return math.nan if (self.q == 0) else math.inf
        return LogQ.of_q(self.q._mul(oq._inv()))

    def __rsub__(self, o):
        oq = self._lift(o)
        if oq is None:
            return NotImplemented
        if isinstance(oq, float):
            return oq
        if (self.q == 0):      # o - (-inf)
            return math.nan if oq.c == 0 else math.inf
        return LogQ.of_q(oq._mul(self.q._inv()))

    def __mul__(self, k):
        if isinstance(k, np.ndarray):
            return NotImplemented
        if isinstance(k, Q) and k.is_const():
            k = k.c
        if _is_num(k):
            kk = lift_number(k)
            if kk.denominator == 1:
                return LogQ.of_q(self.q ** int(kk))
            from .uf import sym_pow
            return LogQ.of_q(sym_pow(self.q, kk))
        if isinstance(k, Q):
            from .uf import sym_pow
            return LogQ.of_q(sym_pow(self.q, k))
        return NotImplemented

    __rmul__ = __mul__

    def __neg__(self):
        return LogQ.of_q(self.q._inv()) if not (self.q == 0) else math.inf

    def exp(self):
        return self.q

    def _cmp(self, o, rel):
        if _is_num(o) and self.q.is_const() and self.q.c > 0:
            f = float(o)
            if f == f and abs(f) != math.inf and f != 0.0:
                # concrete log value against a finite float
                num, den = self.q.c.numerator, self.q.c.denominator
                v = math.log(num) - math.log(den)
                return {"<": v < f, "<=": v <= f, ">": v > f, ">=": v >= f,
                        "==": v == f, "!=": v != f}[rel]
        oq = self._lift(o)
        if oq is None:
            return NotImplemented
        if isinstance(oq, float):
            if oq != oq:
                return rel == "!="
            return rel in ("<", "<=", "!=")   # +inf
        return self.q._cmp(oq, rel)

    def __lt__(self, o):
        return self._cmp(o, "<")

    def __le__(self, o):
        return self._cmp(o, "<=")

    def __gt__(self, o):
        return self._cmp(o, ">")

    def __ge__(self, o):
        return self._cmp(o, ">=")

    def __eq__(self, o):
        return self._cmp(o, "==")

    def __ne__(self, o):
        return self._cmp(o, "!=")

    def __hash__(self):
        return hash(("log", self.q.key()))

    def __repr__(self):
        return f"log({self.q})"


# --------------------------------------------------------------------- helpers

def sym(name, sign=None):
    """Named symbolic real; `sign` in (None,'pos','nonneg') is asserted in the solver."""
    q = Q.var(name, sign)
    cx = _ctx.CUR
    if cx is not None and sign:
        (p, _), = q.n.items()
        cx.base_once(name, p.z3() > 0 if sign == "pos" else p.z3() >= 0)
    return q


def fresh(prefix, sign=None):
    return sym(_ctx.cur().fresh_name(prefix), sign)


def is_sym(x):
    return isinstance(x, (Q, LogQ, SymBool, FP))


def qeq(a, b):
    """Equality of two values that may be Q / numbers / nan / inf."""
    if isinstance(a, LogQ) and isinstance(b, LogQ):
        return a.q == b.q
    if isinstance(a, LogQ) or isinstance(b, LogQ):
        return a == b
    if isinstance(a, Q) or isinstance(b, Q):
        return Q.of(a) == b if not isinstance(a, Q) else a == b
    fa, fb = float(a), float(b)
    if fa != fa and fb != fb:
        return True
    return fa == fb


# --------------------------------------------------------------------- FP (IEEE double)

_F64 = z3.Float64()
_RNE = z3.RNE()


class FP:
    """z3 Float64 term with round-to-nearest-even; add/sub/compare only (DESIGN.md 2.2)."""
    __slots__ = ("z",)
    __array_priority__ = None

    def __init__(self, z):
        self.z = z

    @staticmethod
    def var(name):
        return FP(z3.FP(name, _F64))

    @staticmethod
    def of(x):
        if isinstance(x, FP):
            return x
        if isinstance(x, np.ndarray):
            return None
        if _is_num(x):
            return FP(z3.FPVal(float(x), _F64))
        return None

    def __add__(self, o):
        o = FP.of(o)
        if o is None:
            return NotImplemented
        return FP(z3.fpAdd(_RNE, self.z, o.z))

    __radd__ = __add__

    def __sub__(self, o):
        o = FP.of(o)
        if o is None:
            return NotImplemented
        return FP(z3.fpSub(_RNE, self.z, o.z))

    def __rsub__(self, o):
        o = FP.of(o)
        if o is None:
            return NotImplemented
        return FP(z3.fpSub(_RNE, o.z, self.z))

    def __neg__(self):
        return FP(z3.fpNeg(self.z))

    def _no(self, *a):
        raise NotImplementedError("FP domain supports add/sub/compare only")

    __mul__ = __rmul__ = __truediv__ = __rtruediv__ = __pow__ = _no

    def _cmp(self, o, f):
        o = FP.of(o)
        if o is None:
            return NotImplemented
        return SymBool(f(self.z, o.z))

    def __lt__(self, o):
        return self._cmp(o, z3.fpLT)

    def __le__(self, o):
        return self._cmp(o, z3.fpLEQ)

    def __gt__(self, o):
        return self._cmp(o, z3.fpGT)

    def __ge__(self, o):
        return self._cmp(o, z3.fpGEQ)

    def __eq__(self, o):
        return self._cmp(o, z3.fpEQ)

    def __ne__(self, o):
        return self._cmp(o, z3.fpNEQ)

    def __hash__(self):
        return hash(self.z)

    def isnan(self):
        return SymBool(z3.fpIsNaN(self.z))

    def isfinite(self):
        return SymBool(z3.Not(z3.Or(z3.fpIsNaN(self.z), z3.fpIsInf(self.z))))

    def __repr__(self):
        return f"FP({self.z})"


def choice(prefix="choice_"):
    """Nondeterministic Boolean (a fresh z3 Bool decided by the explorer)."""
    cx = _ctx.cur()
    return bool(SymBool(z3.Bool(cx.fresh_name(prefix))))
